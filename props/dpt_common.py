"""Shared helpers of the datapoint harnesses (C07-C11, C38, C45)."""
from __future__ import annotations


def all_classes():
    from xknx.dpt import DPTBase
    seen, out = set(), []
    for cls in DPTBase.dpt_class_tree():
        if cls not in seen:
            seen.add(cls)
            out.append(cls)
    return sorted(out, key=lambda c: (c.__module__, c.__name__))


def class_by_name(name):
    for c in all_classes():
        if c.__name__ == name:
            return c
    raise KeyError(name)


def chunks(xs, n):
    return [xs[i:i + n] for i in range(0, len(xs), n)]


def mk_payload(c, cls, length=None, pfx="p"):
    """Symbolic payload of the class's own kind; length None = declared length."""
    from xknx.dpt import DPTArray, DPTBinary
    if cls.payload_type is DPTBinary and length is None:
        return DPTBinary(c.fresh_int(pfx + "v", 0, 63))
    n = cls.payload_length if length is None else length
    return DPTArray(tuple(c.fresh_int(f"{pfx}{i}", 0, 255) for i in range(n)))


def payload_json(core, m, p):
    from xknx.dpt import DPTBinary
    if isinstance(p, DPTBinary):
        return {"binary": core.model_val(m, p.value)}
    return {"array": [core.model_val(m, x) for x in p.value]}


def payload_from_json(j):
    from xknx.dpt import DPTArray, DPTBinary
    return DPTBinary(j["binary"]) if "binary" in j else DPTArray(tuple(j["array"]))
