"""C02 Group address filters match exactly the addresses their pattern denotes."""
from __future__ import annotations

ID = "C02"
BOUNDS = {
    "quick": "every pattern shape with 1..3 levels and one item per level from {n, a-b, -b, a-, *} (155 shapes), every 1- and 2-level shape with two comma-separated items on the first level (25 + 125), 3-level shapes with two items on one level (seeded sample of 60); every number in the pattern symbolic in 0..70000; group address raw 0..65535 symbolic, in the notation matching the number of levels; address also given as int for the one-item shapes; internal-address globs: 12 concrete pattern/address pairs",
    "thorough": "as quick plus all 3-level shapes with two items on one level and three-item lists on the free level",
}
OUTSIDE = "patterns outside the documented grammar; filters applied to addresses of another notation than the pattern's level count (the code raises ConnectionError or mixes fields; recorded, not judged); internal-address glob semantics beyond the concrete samples (fnmatch on strings is outside symx)"
ASSUMPTIONS = [
    "denotation: per level OR over items of min(lo,hi) <= field <= max(lo,hi) with numbers clamped to 0..65535, '-b' from 0, 'a-' to 65535, '*' everything; fields: 3 levels = main(5 bit)/middle(3 bit)/sub(8 bit), 2 levels = main/sub(11 bit), 1 level = raw",
    "numbers in the pattern are placeholders for symbolic ints passing through the real str.split/isdigit/int of the parser",
]
EXPLANATION = "C02: AddressFilter parsing and matching run on patterns whose numbers are symbolic; z3 decides match(address) == denotation for every value."
INTERESTING = ["match-true", "match-false"]
REQUIRED_REACH = ["match-true", "match-false", "internal-glob"]
ITEMS = ["n", "a-b", "-b", "a-", "*"]


def jobs(tier, seed):
    import itertools, random
    shapes = []
    for nl in (1, 2, 3):
        for combo in itertools.product(ITEMS, repeat=nl):
            shapes.append([[it] for it in combo])
    for a, b in itertools.product(ITEMS, repeat=2):
        shapes.append([[a, b]])
        for c2 in ITEMS:
            shapes.append([[a, b], [c2]])
    three = []
    for lvl in range(3):
        for a, b in itertools.product(ITEMS, repeat=2):
            for rest in itertools.product(ITEMS, repeat=2):
                sh = [[rest[0]], [rest[1]]]
                sh.insert(lvl, [a, b])
                three.append(sh)
    rnd = random.Random(seed)
    shapes += three if tier != "quick" else rnd.sample(three, 60)
    if tier != "quick":
        for combo in itertools.product(ITEMS, repeat=3):
            shapes.append([list(combo)])
    out = []
    chunk = 12
    for i in range(0, len(shapes), chunk):
        out.append(dict(name=f"shapes-{i}", kind="shapes", shapes=shapes[i:i + chunk], cost=chunk))
    out.append(dict(name="internal", kind="internal"))
    return out


def run_job(job, rep):
    import z3
    from symx import core
    from vx.harness import trace_functions
    from vx.util import exc_site
    import xknx.telegram.address as ad
    import xknx.telegram.address_filter as af

    if job["kind"] == "internal":
        cases = [("i-test", "i-test", True), ("i-t?st", "i-tast", True), ("i-t?st", "i-taast", False), ("i-t*t", "i-tt", True),
                 ("i-t*t", "i-tomat", True), ("i-t*t", "i-toma", False), ("i_test", "i-test", True), ("itest", "i-test", True),
                 ("i-*", "i-anything", True), ("i-a", "i-b", False), ("i-[ab]", "i-a", True), ("i-test", "1/2/3", False)]
        for pat, addr, exp in cases:
            rep.obligations += 1
            try:
                got = af.AddressFilter(pat).match(ad.parse_device_group_address(addr))
            except Exception as e:  # noqa: BLE001
                rep.violation(f"internal-raises:{pat}", dict(kind="internal", pattern=pat, address=addr, expect=exp), repr(e)); continue
            if got != exp:
                rep.violation(f"internal-glob:{pat}:{addr}", dict(kind="internal", pattern=pat, address=addr, expect=exp), f"got {got}")
            else:
                rep.discharged += 1
                rep.reach["internal-glob"] += 1
        rep.stats["paths"] += len(cases)
        return

    FMT = {1: "FREE", 2: "SHORT", 3: "LONG"}
    for shape in job["shapes"]:
        nl = len(shape)
        ad.GroupAddress.address_format = ad.GroupAddressType[FMT[nl]]
        one_item = all(len(l) == 1 for l in shape)
        for as_int in ((False, True) if one_item and nl == 1 else (False,)):
            def run(c):
                nums = []

                def num():
                    v = c.fresh_int(f"n{len(nums)}", 0, 70000)
                    nums.append(v)
                    return c.placeholder(v)
                levels, den = [], []
                for items in shape:
                    txt, d = [], []
                    for it in items:
                        if it == "n":
                            a = num(); txt.append(a); d.append((nums[-1], nums[-1]))
                        elif it == "a-b":
                            a = num(); b = num(); txt.append(f"{a}-{b}"); d.append((nums[-2], nums[-1]))
                        elif it == "-b":
                            b = num(); txt.append(f"-{b}"); d.append((0, nums[-1]))
                        elif it == "a-":
                            a = num(); txt.append(f"{a}-"); d.append((nums[-1], 65535))
                        else:
                            txt.append("*"); d.append((0, 65535))
                    levels.append(",".join(txt))
                    den.append(d)
                pattern = "/".join(levels)
                raw = c.fresh_int("raw", 1 if as_int else 0, 65535)
                c.notes.update(nums=nums, raw=raw, pattern=pattern, den=den)
                f = lambda: af.AddressFilter(pattern).match(raw if as_int else ad.GroupAddress(raw))
                return trace_functions(f, rep) if not rep.functions else f()

            def judge(pr):
                c = pr.ctx
                n_ = c.notes
                if pr.kind in ("unsupported", "timeout"):
                    rep.inconcl(f"{shape}: {pr.value}"); return
                m = c.current_model()

                def mcase(mm):
                    pat = n_["pattern"]
                    for ph, v in c.ph.items():
                        if ph in pat:
                            pat = pat.replace(ph, str(core.model_val(mm, v)))
                    return dict(kind="shape", pattern=pat, raw=core.model_val(mm, n_["raw"]), fmt=FMT[nl], as_int=as_int)
                case = mcase(m)
                if pr.kind == "raise":
                    rep.ob("refuted", f"filter-raises:{exc_site(pr.value)}", case, repr(pr.value)); return
                got = pr.value
                raw = n_["raw"]
                fields = {3: [(raw >> 11) & 31, (raw >> 8) & 7, raw & 255], 2: [(raw >> 11) & 31, raw & 2047], 1: [raw]}[nl]
                cl = lambda x: core.ite(x > 65535, 65535, x) if core.is_sym(x) else min(x, 65535)
                lv = []
                for fld, items in zip(fields, n_["den"]):
                    ors = []
                    for lo, hi in items:
                        lo, hi = cl(lo), cl(hi)
                        ors.append(core.sym_or(core.sym_and(lo <= fld, fld <= hi), core.sym_and(hi <= fld, fld <= lo)))
                    lv.append(core.sym_or(*ors))
                ref = core.sym_and(*lv)
                gz = core.as_z3_bool(got)
                rep.reach["match-true" if (z3.is_true(m.eval(gz, model_completion=True))) else "match-false"] += 1
                st, mm = c.prove(gz == core.as_z3_bool(ref))
                rep.ob(st, f"match-differs-from-denotation:{'/'.join(','.join(l) for l in shape)}", mcase(mm) if mm is not None else case, "filter result differs from the pattern's denotation")
                rep.sample(dict(shape=shape, witness=case), limit=1)

            _, st = core.explore(run, on_path=judge, stop=rep.enough, timeout=300)
            rep.add_stats(st)


def replay(case):
    import xknx.telegram.address as ad
    import xknx.telegram.address_filter as af
    if case["kind"] == "internal":
        try:
            got = af.AddressFilter(case["pattern"]).match(ad.parse_device_group_address(case["address"]))
        except Exception as e:  # noqa: BLE001
            return True, repr(e)
        return got != case["expect"], f"got {got}"
    ad.GroupAddress.address_format = ad.GroupAddressType[case["fmt"]]
    raw = case["raw"]
    try:
        got = af.AddressFilter(case["pattern"]).match(raw if case["as_int"] else ad.GroupAddress(raw))
    except Exception as e:  # noqa: BLE001
        return True, f"{case}: {e!r}"
    levels = case["pattern"].split("/")
    nl = len(levels)
    fields = {3: [(raw >> 11) & 31, (raw >> 8) & 7, raw & 255], 2: [(raw >> 11) & 31, raw & 2047], 1: [raw]}[nl]
    ref = True
    for fld, lvl in zip(fields, levels):
        ok = False
        for it in lvl.split(","):
            if it == "*":
                lo, hi = 0, 65535
            elif "-" in it:
                a, b = it.split("-")
                lo, hi = (int(a) if a else 0), (int(b) if b else 65535)
            else:
                lo = hi = int(it)
            lo, hi = min(lo, 65535), min(hi, 65535)
            ok = ok or min(lo, hi) <= fld <= max(lo, hi)
        ref = ref and ok
    return got != ref, f"AddressFilter({case['pattern']!r}).match({raw}) in {case['fmt']} = {got}, denotation {ref}"
