"""Run a *real* compiled regex on strings that contain symbolic-number placeholders.

A placeholder stands for str(v) of a non-negative symbolic int v (no leading zeros).  The matcher forks on the number of
decimal digits of each placeholder (a range condition on v, decided by the solver), substitutes a representative digit
run of that length and runs the real pattern.  Groups that cover exactly one placeholder return the placeholder string
(which int() maps back to the symbolic value).  Valid for patterns that inspect digit runs only through their length
(\\d{m,n}, \\d+ ...); a group covering part of a placeholder is Unsupported.
"""
from __future__ import annotations

import re

from . import core

PH = re.compile(r"9\d{9}")


class SymMatch:
    def __init__(self, m, spans, orig):
        self.m, self.spans, self.orig = m, spans, orig

    def _map(self, span, text):
        if span == (-1, -1) or text is None:
            return text
        a, b = span
        inside = [(s, e, ph) for (s, e, ph) in self.spans if s < b and e > a]
        if not inside:
            return text
        if len(inside) == 1 and inside[0][0] == a and inside[0][1] == b:
            return inside[0][2]
        if all(s >= a and e <= b for s, e, _ in inside):
            out, pos = "", a
            for s, e, ph in inside:
                out += self.m.string[pos:s] + ph
                pos = e
            return out + self.m.string[pos:b]
        raise core.Unsupported("regex group covers part of a symbolic number")

    def group(self, *names):
        if not names:
            names = (0,)
        res = [self._map(self.m.span(n), self.m.group(n)) for n in names]
        return res[0] if len(res) == 1 else tuple(res)

    def groups(self):
        return tuple(self._map(self.m.span(i + 1), g) for i, g in enumerate(self.m.groups()))

    def groupdict(self):
        return {k: self.group(k) for k in self.m.groupdict()}


class SymPattern:
    def __init__(self, real):
        self.real = real
        self.pattern = real.pattern

    def _subst(self, s):
        c = core._ctx
        if c is None or not c.ph or not isinstance(s, str):
            return s, []
        out, spans, pos = "", [], 0
        for mt in PH.finditer(s):
            ph = mt.group(0)
            if ph not in c.ph:
                continue
            v = c.ph[ph]
            if not isinstance(v, core.SymInt):
                raise core.Unsupported("non-integer placeholder in regex subject")
            out += s[pos:mt.start()]
            if v.lo < 0:
                raise core.Unsupported("possibly negative number rendered into regex subject")
            nd = 1
            while not (v < 10 ** nd):      # forks: digit count of str(v)
                nd += 1
                if nd > 20:
                    raise core.Unsupported("number too long")
            start = len(out)
            out += "1" * nd if nd else "1"
            spans.append((start, len(out), ph))
            pos = mt.end()
        out += s[pos:]
        return out, spans

    def _wrap(self, fn, s, *a):
        sub, spans = self._subst(s)
        m = fn(sub, *a)
        if m is None or not spans:
            return m
        return SymMatch(m, spans, s)

    def match(self, s, *a):
        return self._wrap(self.real.match, s, *a)

    def fullmatch(self, s, *a):
        return self._wrap(self.real.fullmatch, s, *a)

    def search(self, s, *a):
        return self._wrap(self.real.search, s, *a)
