"""C41 Exposed values respect cooldown and always end up on the bus (partial)."""
from __future__ import annotations

ID = "C41"
BOUNDS = {
    "quick": "ONE step of ExposeSensor (value type 1byte_unsigned and binary, cooldown 5 s and none, periodic send none) from an arbitrary state: pending payload P unknown or any octet, payload last processed L unknown or any octet, cooldown timer running or not; steps: set(v) with symbolic v 0..255 and skip_unchanged both ways, the timer body _cooldown_send(), an incoming GroupValueRead (respond_to_read on/off), initialize_value(v), the periodic tick body _periodic_send_impl() (periodic send 30 s), the cooldown timer's own coroutine Task._start_internal stepped over two expiries, and the loop-back of every telegram the step queued; the real TaskRegistry/Task run with inert task handles",
    "thorough": "same (the step space is covered completely in the quick tier)",
}
OUTSIDE = "elapsing of the cooldown itself and the interleaving of the timer task with updates in the event loop (the timer is an inert handle: its start, the condition under which its body sends, and the value it sends are decided; the body of Task that sleeps `cooldown` before calling it is decided in C36); the periodic timer's schedule; value types other than the two listed"
ASSUMPTIONS = [
    "decomposition of the statement: (1) an update while the cooldown timer runs queues nothing and only replaces the pending payload, (2) an update while it does not run queues exactly one telegram with the new payload and starts the timer, (3) when the timer fires it sends the pending payload iff that differs from the payload last on the bus, otherwise it stops the timer, (4) a read request is answered with the pending (most recent) payload and restarts the timer, (5) skip_unchanged suppresses only a payload equal to the pending one, (6) a periodic tick sends the pending (most recent) payload and restarts the cooldown, (7) after the timer sent a deferred value it keeps running for another cooldown (repeat_after = 0 loops) and stops at the first expiry with nothing pending",
]
EXPLANATION = "C41: real ExposeSensor.set/_cooldown_send/process_group_read/initialize_value with symbolic payload octets and values; the solver decides the equalities that drive skipping and re-sending."
INTERESTING = ["set-deferred", "set-sent", "set-skipped", "cooldown-sent", "cooldown-stopped", "read-answered", "periodic-sent", "timer-loop"]
REQUIRED_REACH = list(INTERESTING)

GA = "1/2/3"


def jobs(tier, seed):
    out = []
    for vt in ("1byte_unsigned", "binary"):
        for cooldown in (5, 0):
            for step in ("set", "fire", "read", "init", "periodic", "loop"):
                if step in ("fire", "loop") and not cooldown:
                    continue
                out.append(dict(name=f"{step}-{vt}-cooldown{cooldown}", kind=step, vt=vt, cooldown=cooldown, cost=5))
    return out


def setup(log, handles):
    import types
    from symx import aio
    import xknx.core.task_registry as trm
    from xknx import XKNX

    def create_task(coro, name=None):
        h = aio.InertTask(log, coro)
        handles.append(h)
        return h
    trm.asyncio = aio.asyncio_shim(log, extra=dict(create_task=create_task, iscoroutine=__import__("asyncio").iscoroutine))
    trm.logger = types.SimpleNamespace(debug=lambda *a, **k: None, warning=lambda *a, **k: None, info=lambda *a, **k: None)
    return XKNX()


def mk_payload(vt, x):
    from xknx.dpt import DPTArray, DPTBinary
    return DPTBinary(x) if vt == "binary" else DPTArray((x,))


def build(xk, vt, cooldown, respond=True, periodic=0):
    from xknx.devices import ExposeSensor
    return ExposeSensor(xk, "e", group_address=GA, value_type=vt, cooldown=cooldown, respond_to_read=respond, periodic_send=periodic)


def drain(xk):
    out = []
    while not xk.telegrams.empty():
        out.append(xk.telegrams.get_nowait())
    return out


def run_job(job, rep):
    import types
    from symx import aio, core
    from vx.harness import trace_functions
    from vx.util import sym_eq
    from xknx.telegram import GroupAddress, Telegram, TelegramDirection
    from xknx.telegram.apci import GroupValueRead, GroupValueResponse, GroupValueWrite
    import xknx.remote_value.remote_value as rvmod

    rvmod.logger = types.SimpleNamespace(debug=lambda *a, **k: None, warning=lambda *a, **k: None, info=lambda *a, **k: None)
    vt, cooldown, step = job["vt"], job["cooldown"], job["kind"]
    top = 1 if vt == "binary" else 255
    pick = lambda c, name, opts: opts[core.concretize(c.fresh_int(name, 0, len(opts) - 1))]

    def run(c):
        log, handles = [], []
        xk = setup(log, handles)
        respond = pick(c, "respond", [True, False]) if step == "read" else True
        dev = build(xk, vt, cooldown, respond, periodic=30 if step == "periodic" else 0)
        has_p = pick(c, "has_p", [True, False])
        has_l = pick(c, "has_l", [True, False])
        running = pick(c, "running", [True, False]) if cooldown else False
        if step in ("fire", "loop") and not has_p:
            return None          # invalid state: the timer is only ever started by a step that sets the pending payload first
        p = c.fresh_int("p", 0, top)
        l_ = c.fresh_int("l", 0, top)
        dev._payload_after_cooldown = mk_payload(vt, p) if has_p else None
        dev.sensor_value._payload = mk_payload(vt, l_) if has_l else None
        if has_l:
            dev.sensor_value._value = dev.sensor_value.from_knx(dev.sensor_value._payload)
        if running:
            xk.task_registry.start_task(dev._cooldown_task)
        n0, h0 = len(log), len(handles)
        notes = dict(has_p=has_p, has_l=has_l, running=running, p=p, l=l_, respond=respond)
        if step == "set":
            v = c.fresh_int("v", 0, top)
            skip = pick(c, "skip", [False, True])
            notes.update(v=v, skip=skip)
            val = (v == 1) if vt == "binary" else v
            f = lambda: aio.drive(dev.set(val, skip_unchanged=skip))
        elif step == "fire":
            f = lambda: aio.drive(dev._cooldown_send())
        elif step == "read":
            f = lambda: dev.process(Telegram(destination_address=GroupAddress(GA), direction=TelegramDirection.INCOMING, payload=GroupValueRead()))
        elif step == "periodic":
            dev.async_start_tasks()
            n0, h0 = len(log), len(handles)
            f = lambda: aio.drive(dev._periodic_send_impl())
        elif step == "loop":
            # the timer task's own coroutine: sleep(cooldown), body, and - repeat_after being 0 - again
            import xknx.core.task_registry as trm
            xk.connection_manager.connected.set()
            budget = {"n": 0}

            def sleep(d):
                def hook():
                    for tg in drain(xk):          # the queue consumer loops a sent telegram back before the next expiry
                        log.append(("sent",))
                        tg.direction = TelegramDirection.OUTGOING
                        dev.process(tg)
                    if ("task.cancel",) in log[n0:]:
                        raise aio.Stop()          # a cancelled task ends at its next suspension point
                    log.append(("sleep", d))
                    budget["n"] += 1
                    if budget["n"] > 3:
                        raise aio.Stop()
                return aio.Ready(hook=hook)
            trm.asyncio.sleep = sleep
            if not running:
                xk.task_registry.start_task(dev._cooldown_task)      # the coroutine stepped below is the one this handle stands for
            n0 = len(log)
            f = lambda: aio.drive(dev._cooldown_task._start_internal())
        else:
            v = c.fresh_int("v", 0, top)
            notes.update(v=v)
            val = (v == 1) if vt == "binary" else v
            f = lambda: dev.initialize_value(val)
        notes["log"] = log
        c.notes.update(notes)
        trace_functions(f, rep) if not rep.functions else f()
        sent = drain(xk)
        created = len(handles) - h0
        cancelled = sum(1 for e in log[n0:] if e == ("task.cancel",))
        for tg in sent:
            tg.direction = TelegramDirection.OUTGOING
            dev.process(tg)
        return dev, sent, created, cancelled

    def judge(pr):
        c = pr.ctx
        if pr.kind in ("unsupported", "timeout"):
            rep.inconcl(f"{job['name']}: {pr.kind} {pr.value}"); return
        if pr.kind == "ok" and pr.value is None:
            return
        n = c.notes
        m = c.current_model()
        mv = lambda mm, k: core.model_val(mm, n[k]) if k in n else None
        mcase = lambda mm: dict(kind=step, vt=vt, cooldown=cooldown, has_p=n.get("has_p"), has_l=n.get("has_l"), running=n.get("running"), p=mv(mm, "p"), l=mv(mm, "l"), v=mv(mm, "v"),
                                skip=n.get("skip"), respond=n.get("respond"))
        case = mcase(m)
        if pr.kind == "raise":
            rep.ob("refuted", f"{step}-raises:{type(pr.value).__name__}", case, repr(pr.value)); return
        dev, sent, created, cancelled = pr.value
        P = dev._payload_after_cooldown
        val_of = lambda pl: pl.value if vt == "binary" else pl.value[0]
        conds, problems = [], []
        if step == "set":
            v = n["v"]
            equal_pending = n["has_p"] and core.mk_bool(core.as_z3_bool(sym_eq(n["p"], v))) if False else (sym_eq(n["p"], v) if n["has_p"] else False)
            # the path has already decided (forked on) the comparison inside set(); classify by what happened and prove consistency
            if not sent and created == 0 and not (cooldown and n["running"]):
                # nothing sent, no timer: only legal when skipped
                rep.reach["set-skipped"] += 1
                if not n["skip"]:
                    problems.append("update dropped without skip_unchanged")
                conds.append(equal_pending)
            elif cooldown and n["running"]:
                if sent:
                    problems.append(f"{len(sent)} telegram(s) sent while the cooldown timer runs")
                if created:
                    problems.append("cooldown timer restarted by an update")
                if n["skip"]:
                    # either skipped (equal) or deferred (pending replaced)
                    conds.append(core.sym_or(equal_pending, sym_eq(val_of(P), v)) if P is not None else False)
                    rep.reach["set-skipped" if P is not None and core.is_sym(val_of(P)) and val_of(P) is n["p"] else "set-deferred"] += 1
                else:
                    rep.reach["set-deferred"] += 1
                    conds.append(sym_eq(val_of(P), v) if P is not None else False)
            else:
                rep.reach["set-sent"] += 1
                if len(sent) != 1 or not isinstance(sent[0].payload, GroupValueWrite):
                    problems.append(f"{len(sent)} telegrams for one update")
                else:
                    conds.append(sym_eq(val_of(sent[0].payload.value), v))
                if created != (1 if cooldown else 0):
                    problems.append(f"{created} timers started (cooldown {cooldown})")
                conds.append(sym_eq(val_of(P), v) if P is not None else False)
                if n["skip"]:
                    conds.append(core.sym_not(equal_pending))
        elif step == "fire":
            same = (sym_eq(n["p"], n["l"]) if (n["has_p"] and n["has_l"]) else (n["has_p"] == n["has_l"]))
            if sent:
                rep.reach["cooldown-sent"] += 1
                if len(sent) != 1:
                    problems.append(f"{len(sent)} telegrams at timer expiry")
                conds.append(core.sym_not(same))
                conds.append(sym_eq(val_of(sent[0].payload.value), n["p"]) if n["has_p"] else False)
                # after the loop-back the value on the bus is the pending one: the next expiry stops the timer
                conds.append(sym_eq(val_of(dev.sensor_value.last_payload), n["p"]) if dev.sensor_value.last_payload is not None and n["has_p"] else False)
            else:
                rep.reach["cooldown-stopped"] += 1
                conds.append(same)
                if n["running"] and cancelled != 1:
                    problems.append("timer not stopped although nothing is pending")
        elif step == "read":
            if not n["respond"]:
                if sent:
                    problems.append("read answered although respond_to_read is off")
            elif n["has_p"]:
                rep.reach["read-answered"] += 1
                if len(sent) != 1 or not isinstance(sent[0].payload, GroupValueResponse):
                    problems.append(f"{len(sent)} answers to one read")
                else:
                    conds.append(sym_eq(val_of(sent[0].payload.value), n["p"]))
                if cooldown and created != 1:
                    problems.append("cooldown not restarted by the answer")
            elif n["has_l"]:
                rep.reach["read-answered"] += 1
                if len(sent) != 1:
                    problems.append(f"{len(sent)} answers to one read")
                else:
                    conds.append(sym_eq(val_of(sent[0].payload.value), n["l"]))
            elif sent:
                problems.append("read answered without any value")
        elif step == "periodic":
            if n["has_p"]:
                rep.reach["periodic-sent"] += 1
                if len(sent) != 1:
                    problems.append(f"{len(sent)} telegrams per periodic tick")
                else:
                    conds.append(sym_eq(val_of(sent[0].payload.value), n["p"]))
                if cooldown and created != 1:
                    problems.append("cooldown not restarted by the periodic send")
            elif sent:
                problems.append("periodic tick sent although no value is set")
        elif step == "loop":
            rep.reach["timer-loop"] += 1
            ev = [e for e in n["log"] if e[0] in ("sleep", "sent", "task.cancel")]
            ev = ev[next((i for i, e in enumerate(ev) if e[0] == "sleep"), 0):]
            same = sym_eq(n["p"], n["l"]) if n["has_l"] else False
            if ("sent",) in ev:
                want = [("sleep", cooldown), ("sent",), ("sleep", 0), ("sleep", cooldown), ("task.cancel",)]
                if ev[:5] != want[:len(ev[:5])] or len(ev) < 4:
                    problems.append(f"timer loop after a deferred send: {ev[:6]}")
                conds.append(core.sym_not(same))
            else:
                if ev[:2] != [("sleep", cooldown), ("task.cancel",)]:
                    problems.append(f"timer loop with nothing pending: {ev[:4]}")
                conds.append(same)
        else:
            if sent or created:
                problems.append("initialize_value sent a telegram or started a timer")
            conds.append(sym_eq(val_of(P), n["v"]) if P is not None else False)
            conds.append(sym_eq(val_of(dev.sensor_value.last_payload), n["v"]) if dev.sensor_value.last_payload is not None else False)
        if problems:
            rep.ob("refuted", f"{step}:{problems[0][:45]}", case, "; ".join(problems)); return
        st, mm = c.prove(core.sym_and(*conds) if conds else True)
        rep.ob(st, f"{step}:payload-or-decision", mcase(mm) if mm is not None else case, "payload sent/kept or the skip/resend decision differs from the reference")
        rep.sample(dict(job=job["name"], witness=case), limit=1)
    _, st = core.explore(run, on_path=judge, stop=rep.enough, timeout=300)
    rep.add_stats(st)


def replay(case):
    import asyncio
    from xknx import XKNX
    from xknx.core import Task
    from xknx.telegram import GroupAddress, Telegram, TelegramDirection
    from xknx.telegram.apci import GroupValueRead, GroupValueResponse, GroupValueWrite

    async def go():
        xk = XKNX()
        vt, cooldown, step = case["vt"], case["cooldown"], case["kind"]
        dev = build(xk, vt, cooldown, case.get("respond", True), periodic=30 if step == "periodic" else 0)
        val_of = lambda pl: pl.value if vt == "binary" else pl.value[0]
        conv = lambda x: (x == 1) if vt == "binary" else x
        if step == "loop":
            import xknx.core.task_registry as trm
            dev._payload_after_cooldown = mk_payload(vt, case["p"])
            dev.sensor_value._payload = mk_payload(vt, case["l"]) if case["has_l"] else None
            xk.connection_manager.connected.set()
            ev = []
            real_sleep = asyncio.sleep

            async def fake_sleep(d):
                for tg in drain(xk):
                    ev.append(("sent", val_of(tg.payload.value)))
                    tg.direction = TelegramDirection.OUTGOING
                    dev.process(tg)
                ev.append(("sleep", d))
                if len(ev) > 12:
                    raise asyncio.CancelledError()
                await real_sleep(0)
            saved = trm.asyncio.sleep
            trm.asyncio.sleep = fake_sleep
            try:
                xk.task_registry.start_task(dev._cooldown_task)
                t = dev._cooldown_task._task
                try:
                    await asyncio.wait_for(asyncio.shield(asyncio.gather(t, return_exceptions=True)), 2)
                except asyncio.TimeoutError:
                    t.cancel()
            finally:
                trm.asyncio.sleep = saved
            same = case["has_l"] and case["p"] == case["l"]
            sent = [e for e in ev if e[0] == "sent"]
            sleeps = [e[1] for e in ev if e[0] == "sleep"]
            if same:
                bad = bool(sent) or sleeps[:1] != [cooldown] or len(sleeps) > 1
            else:
                bad = sent != [("sent", case["p"])] or sleeps[:3] != [cooldown, 0, cooldown] or len(sleeps) > 3
            return bad, f"{case}: timer loop {ev[:8]}"
        dev._payload_after_cooldown = mk_payload(vt, case["p"]) if case["has_p"] else None
        dev.sensor_value._payload = mk_payload(vt, case["l"]) if case["has_l"] else None
        if case["has_l"]:
            dev.sensor_value._value = dev.sensor_value.from_knx(dev.sensor_value._payload)
        if case["running"]:
            xk.task_registry.start_task(dev._cooldown_task)
        t_before = dev._cooldown_task._task if dev._cooldown_task is not None else None
        try:
            if step == "set":
                await dev.set(conv(case["v"]), skip_unchanged=case["skip"])
            elif step == "fire":
                await dev._cooldown_send()
            elif step == "read":
                dev.process(Telegram(destination_address=GroupAddress(GA), direction=TelegramDirection.INCOMING, payload=GroupValueRead()))
            elif step == "periodic":
                await dev._periodic_send_impl()
            else:
                dev.initialize_value(conv(case["v"]))
        except Exception as e:  # noqa: BLE001
            return True, f"{case}: raised {e!r}"
        sent = drain(xk)
        t_after = dev._cooldown_task._task if dev._cooldown_task is not None else None
        started = t_after is not None and t_after is not t_before
        P = dev._payload_after_cooldown
        res = None
        if step == "set":
            v = case["v"]
            equal = case["has_p"] and case["p"] == v
            if case["skip"] and equal:
                if sent or started:
                    res = "an unchanged value was sent despite skip_unchanged"
            elif cooldown and case["running"]:
                if sent or started or P is None or val_of(P) != v:
                    res = f"update during cooldown: sent {len(sent)}, timer restarted {started}, pending {P!r}"
            else:
                if len(sent) != 1 or val_of(sent[0].payload.value) != v or bool(started) != bool(cooldown) or P is None or val_of(P) != v:
                    res = f"update outside cooldown: sent {[str(t.payload) for t in sent]}, timer started {started}, pending {P!r}"
        elif step == "fire":
            if not case["has_p"] and case["has_l"]:
                res = None
            else:
                same = (case["p"] == case["l"]) if (case["has_p"] and case["has_l"]) else (case["has_p"] == case["has_l"])
                if same and sent:
                    res = "timer expiry re-sent a value that is already on the bus"
                if not same and (len(sent) != 1 or val_of(sent[0].payload.value) != case["p"]):
                    res = f"timer expiry did not send the pending value {case['p']}: {[str(t.payload) for t in sent]}"
        elif step == "read":
            if not case.get("respond", True):
                res = "answered although respond_to_read is off" if sent else None
            elif case["has_p"]:
                if len(sent) != 1 or not isinstance(sent[0].payload, GroupValueResponse) or val_of(sent[0].payload.value) != case["p"] or (cooldown and not started):
                    res = f"read answered with {[str(t.payload) for t in sent]}, pending value {case['p']}, cooldown restarted {started}"
            elif case["has_l"]:
                if len(sent) != 1 or val_of(sent[0].payload.value) != case["l"]:
                    res = f"read answered with {[str(t.payload) for t in sent]}, current value {case['l']}"
        elif step == "periodic":
            if case["has_p"]:
                if len(sent) != 1 or val_of(sent[0].payload.value) != case["p"] or (cooldown and not started):
                    res = f"periodic tick sent {[str(t.payload) for t in sent]} with most recent value {case['p']}; cooldown restarted {started}"
            elif sent:
                res = "periodic tick sent without a value"
        else:
            if sent or started or P is None or val_of(P) != case["v"]:
                res = f"initialize_value: sent {len(sent)}, pending {P!r}"
        for t in (t_before, t_after):
            if t is not None:
                t.cancel()
        return (res is not None), f"{case}: {res}"
    return asyncio.run(go())
