"""C06 Encoding an application PDU never silently changes a field."""
from __future__ import annotations

ID = "C06"
BOUNDS = {
    "quick": "every concrete APCI service class; all int fields symbolic in [-2^33, 2^33] simultaneously; each bytes field swept over lengths 0..20 (others at default/typical lengths) with symbolic content; bool fields symbolic; enum fields over all members; address fields raw 0..65535 symbolic; list[GroupAddress] of 0..3 symbolic addresses; optional fields both None and symbolic",
    "thorough": "as quick with bytes-field lengths 0..64 and pairs of bytes fields swept jointly over 0..12",
}
OUTSIDE = "non-int objects in int fields (type errors), ints beyond 2^33 in magnitude, bytes fields longer than the bound"
ASSUMPTIONS = [
    "'refuses' = raises ConversionError; any other exception escaping to_knx is reported as 'neither refused nor encoded'",
    "equality after decode: dataclass field-wise equality; an optional count/number field left None compares equal to the value the decoder derives from the data length (the field is documented as derived)",
    "SecureAPDU is covered by C15/C19 (its fields are ciphertext containers)",
]
EXPLANATION = ("C06: for each service class an object is built directly with symbolic field values; to_knx must raise "
               "ConversionError or APCI.from_knx(bytes(enc)) must equal the object for every value on the path (z3).")
INTERESTING = ["roundtrip", "refused"]
REQUIRED_REACH = ["roundtrip", "refused"]
DERIVED_OPTIONAL = ("count", "number")


def _classes(apci):
    out = []

    def walk(c):
        for s in c.__subclasses__():
            walk(s)
            if getattr(s, "__abstractmethods__", None) or s.__name__ == "SecureAPDU":
                continue
            if s not in out:
                out.append(s)
    walk(apci.APCI)
    return sorted(out, key=lambda c: c.__name__)


def jobs(tier, seed):
    import dataclasses
    import xknx.telegram.apci as apci
    out = []
    maxlen = 20 if tier == "quick" else 64
    for cls in _classes(apci):
        fs = dataclasses.fields(cls)
        bfields = [f.name for f in fs if f.type.startswith("bytes")]
        variants = []
        if not bfields:
            variants.append({})
        for bf in bfields:
            for n in range(0, maxlen + 1):
                variants.append({bf: n})
        if tier != "quick" and len(bfields) >= 2:
            for a in range(0, 13):
                for b in range(0, 13):
                    variants.append({bfields[0]: a, bfields[1]: b})
        # group variants into a few jobs per class
        chunk = 11
        for i in range(0, len(variants), chunk):
            out.append(dict(name=f"{cls.__name__}-{i // chunk}", cls=cls.__name__, variants=variants[i:i + chunk], cost=len(variants[i:i + chunk])))
    return out


def build(c, cls, lens, opt_none, apci):
    """Construct cls with symbolic fields.  Returns (obj, inputs dict for replay)."""
    import dataclasses
    import enum
    from symx import core
    from xknx.telegram.address import GroupAddress, IndividualAddress
    from xknx.dpt import DPTArray, DPTBinary
    kw, inputs = {}, {}
    for f in dataclasses.fields(cls):
        t = f.type
        default_len = None
        if f.default is not dataclasses.MISSING and isinstance(f.default, bytes):
            default_len = len(f.default)
        if t in ("int", "int | None"):
            if (f.default is None or t == "int | None") and opt_none:
                kw[f.name] = None
            else:
                kw[f.name] = c.fresh_int(f.name, -(1 << 33), 1 << 33)
        elif t == "bool":
            kw[f.name] = c.fresh_bool(f.name)
        elif t in ("bytes", "bytes | None"):
            if t == "bytes | None" and opt_none and f.name not in lens:
                kw[f.name] = None
            else:
                n = lens.get(f.name, default_len if default_len is not None else TYPICAL.get((cls.__name__, f.name), 2))
                kw[f.name] = c.fresh_bytes(f.name, n)
        elif t == "IndividualAddress":
            kw[f.name] = IndividualAddress(c.fresh_int(f.name, 0, 65535))
        elif t == "GroupAddress":
            kw[f.name] = GroupAddress(c.fresh_int(f.name, 0, 65535))
        elif t == "list[GroupAddress]":
            n = lens.get("__list", 2)
            kw[f.name] = [GroupAddress(c.fresh_int(f"{f.name}{i}", 0, 65535)) for i in range(n)]
        elif t == "DPTBinary | DPTArray":
            n = lens.get("__dpt", 0)
            kw[f.name] = DPTBinary(c.fresh_int("dptbin", 0, 63)) if n == 0 else DPTArray(tuple(c.fresh_int(f"dpt{i}", 0, 255) for i in range(n)))
        elif hasattr(apci, t) and isinstance(getattr(apci, t), type) and issubclass(getattr(apci, t), enum.Enum):
            members = list(getattr(apci, t))
            idx = core.concretize(c.fresh_int(f.name + "_idx", 0, len(members) - 1))
            kw[f.name] = members[idx]
        else:
            raise core.Unsupported(f"field type {t}")
        inputs[f.name] = kw[f.name]
    return cls(**kw), inputs


TYPICAL = {("IndividualAddressSerialRead", "serial"): 6, ("IndividualAddressSerialResponse", "serial"): 6,
           ("IndividualAddressSerialWrite", "serial"): 6, ("DomainAddressSerialNumberRead", "serial"): 6,
           ("DomainAddressSerialNumberResponse", "serial"): 6, ("DomainAddressSerialNumberWrite", "serial"): 6,
           ("DomainAddressSerialNumberResponse", "domain_address"): 6, ("DomainAddressSerialNumberWrite", "domain_address"): 6,
           ("DomainAddressSerialNumberWrite", "backbone_key"): 16,
           ("DomainAddressWrite", "domain_address"): 2, ("DomainAddressResponse", "domain_address"): 2,
           ("UserMemoryBitWrite", "and_data"): 2, ("UserMemoryBitWrite", "xor_data"): 2,
           ("MemoryBitWrite", "and_data"): 2, ("MemoryBitWrite", "xor_data"): 2}


def jsonable(v, m=None):
    import enum
    from symx import core
    from xknx.dpt import DPTArray, DPTBinary
    if m is not None:
        if isinstance(v, (core.SymInt, core.SymBool, core.SymBytes)):
            v = core.model_val(m, v)
        elif isinstance(v, DPTBinary):
            return {"dptbinary": core.model_val(m, v.value)}
        elif isinstance(v, DPTArray):
            return {"dptarray": [core.model_val(m, x) for x in v.value]}
        elif isinstance(v, list):
            return [jsonable(x, m) for x in v]
        elif hasattr(v, "raw"):
            return {"addr": core.model_val(m, v.raw)}
    if isinstance(v, (bytes, bytearray)):
        return {"bytes": bytes(v).hex()}
    if isinstance(v, enum.Enum):
        return {"enum": v.name}
    if isinstance(v, DPTBinary):
        return {"dptbinary": v.value}
    if isinstance(v, DPTArray):
        return {"dptarray": list(v.value)}
    if isinstance(v, list):
        return [jsonable(x) for x in v]
    if hasattr(v, "raw"):
        return {"addr": v.raw}
    return v


def field_eq(core, sym_eq, obj, obj2):
    import dataclasses
    parts = []
    for f in dataclasses.fields(obj):
        a, b = getattr(obj, f.name), getattr(obj2, f.name)
        if a is None and f.name in DERIVED_OPTIONAL:
            continue
        parts.append(sym_eq(a, b))
    return core.sym_and(*parts) if parts else True


def run_job(job, rep):
    from symx import core, shims
    from vx.harness import trace_functions
    from vx.util import exc_site, sym_eq
    import xknx.telegram.apci as apci
    from xknx.exceptions import ConversionError

    cls = getattr(apci, job["cls"])
    OTHER_CODES = {cls.__name__: {k.CODE.value for k in _classes(apci) if k is not cls}}
    for lens in job["variants"]:
        for opt_none in (False, True):
            import dataclasses
            has_opt = any(f.default is None for f in dataclasses.fields(cls))
            if opt_none and not has_opt:
                continue
            extra = [{}]
            if any(f.type == "DPTBinary | DPTArray" for f in dataclasses.fields(cls)):
                extra = [{"__dpt": n} for n in (0, 1, 2, 3, 14, 15, 20)]
            if any(f.type == "list[GroupAddress]" for f in dataclasses.fields(cls)):
                extra = [{"__list": n} for n in (0, 1, 2, 3)]
            for ex in extra:
                ll = dict(lens, **ex)

                def run(c):
                    obj, inputs = build(c, cls, ll, opt_none, apci)
                    c.notes["inputs"] = inputs
                    try:
                        enc = obj.to_knx()
                    except ConversionError as e:
                        return ("refused", e)
                    except NotImplementedError:
                        return ("notimpl",)
                    except Exception as e:  # noqa: BLE001 - not silent: the object is refused, with an undeclared error class
                        return ("refused-undeclared", e)
                    try:
                        obj2 = apci.APCI.from_knx(shims.bytes_shim(enc))
                    except Exception as e:  # noqa: BLE001
                        return ("undecodable", obj, enc, e)
                    return ("enc", obj, enc, obj2)

                def judge(pr):
                    c = pr.ctx
                    if pr.kind in ("unsupported", "timeout"):
                        rep.inconcl(f"{cls.__name__} {ll}: {pr.kind} {pr.value}"); return
                    m = c.current_model()

                    def mcase(mm):
                        return dict(cls=cls.__name__, fields={k: jsonable(v, mm) for k, v in c.notes["inputs"].items()})
                    case = mcase(m)
                    if pr.kind == "raise":
                        rep.ob("refuted", f"harness-build-raises:{cls.__name__}:{type(pr.value).__name__}", case, repr(pr.value)); return
                    tag = pr.value[0]
                    if tag == "notimpl":
                        rep.reach["not-implemented"] += 1; return
                    if tag in ("refused", "refused-undeclared"):
                        rep.reach["refused"] += 1
                        if tag == "refused-undeclared":
                            rep.reach["refused-with:" + type(pr.value[1]).__name__] += 1
                        rep.obligations += 1; rep.discharged += 1
                        return
                    rep.reach["roundtrip"] += 1
                    enc = pr.value[2]
                    qual = "[" + ",".join(f"{k}={n}" for k, n in sorted(ll.items())) + "]"
                    a10 = ((enc[0] * 256 + enc[1]) & 0x3FF) if len(enc) >= 2 else None
                    if a10 is not None:
                        a10 = core.model_int(m, a10)
                    if a10 is not None and a10 != cls.CODE.value and a10 in OTHER_CODES.get(cls.__name__, ()):
                        qual = "[apci-collision]"     # the encoded APCI is the exact code of a different service
                    if tag == "undecodable":
                        rep.ob("refuted", f"encoded-but-undecodable:{cls.__name__}{qual}", case, repr(pr.value[3])); return
                    _, obj, enc, obj2 = pr.value
                    if type(obj2) is not type(obj):
                        rep.ob("refuted", f"decodes-as-other-service:{cls.__name__}{qual}", case, type(obj2).__name__); return
                    for f in dataclasses.fields(obj):
                        a, b = getattr(obj, f.name), getattr(obj2, f.name)
                        if a is None and f.name in DERIVED_OPTIONAL:
                            continue
                        st, mm = c.prove(sym_eq(a, b))
                        rep.ob(st, f"field-changed:{cls.__name__}.{f.name}", mcase(mm) if mm is not None else case, "decode(encode(obj)) != obj")
                    rep.sample(dict(cls=cls.__name__, lens=ll, witness=case["fields"]), limit=1)

                _, st = core.explore(run, on_path=judge, stop=rep.enough, timeout=600)
                rep.add_stats(st)


def _mk(v, apci):
    from xknx.dpt import DPTArray, DPTBinary
    from xknx.telegram.address import GroupAddress, IndividualAddress
    if isinstance(v, dict):
        if "bytes" in v:
            return bytes.fromhex(v["bytes"])
        if "dptbinary" in v:
            return DPTBinary(v["dptbinary"])
        if "dptarray" in v:
            return DPTArray(tuple(v["dptarray"]))
        if "enum" in v:
            return v
        if "addr" in v:
            return v
    return v


def replay(case):
    import dataclasses
    import xknx.telegram.apci as apci
    from xknx.exceptions import ConversionError
    from xknx.telegram.address import GroupAddress, IndividualAddress
    cls = getattr(apci, case["cls"])
    kw = {}
    for f in dataclasses.fields(cls):
        v = case["fields"][f.name]
        if isinstance(v, dict) and "addr" in v:
            v = (GroupAddress if f.type == "GroupAddress" else IndividualAddress)(v["addr"])
        elif isinstance(v, dict) and "enum" in v:
            v = getattr(getattr(apci, f.type), v["enum"])
        elif isinstance(v, list):
            v = [GroupAddress(x["addr"]) for x in v]
        else:
            v = _mk(v, apci)
        kw[f.name] = v
    obj = cls(**kw)
    try:
        enc = obj.to_knx()
    except ConversionError:
        return False, "refused"
    except NotImplementedError:
        return False, "not implemented"
    except Exception as e:  # noqa: BLE001
        return True, f"{obj}: to_knx raised {e!r} (neither refused nor encoded)"
    try:
        obj2 = apci.APCI.from_knx(bytes(enc))
    except Exception as e:  # noqa: BLE001
        return True, f"{obj} encodes to {bytes(enc).hex()} which does not decode: {e!r}"
    if type(obj2) is not type(obj):
        return True, f"{obj} -> {bytes(enc).hex()} -> {obj2}"
    for f in dataclasses.fields(cls):
        a, b = getattr(obj, f.name), getattr(obj2, f.name)
        if a is None and f.name in DERIVED_OPTIONAL:
            continue
        if a != b:
            return True, f"{cls.__name__}.{f.name}: {a!r} -> {bytes(enc).hex()} -> {b!r}"
    return False, "ok"
