"""C11 Any value accepted for sending becomes a wire-valid telegram."""
from __future__ import annotations

ID = "C11"
BOUNDS = {
    "quick": "entry points group_value_write, group_value_response, the MCP send_group_value_write tool and RemoteValue*.set; values: (a) every numeric datapoint class with a symbolic int in [-2^33, 2^33] and, for the float-coded classes, a symbolic number of tenths k/10 spanning the declared range +-2 (45 s per class, 40 s per solver query); (b) every enum and dataclass-valued datapoint class with symbolic int fields in [-3, 70000], symbolic bools, every enum member, fractions k/10, optional fields all present or all None; (c) raw values without a DPT: a symbolic int in [-300, 600] and lists/tuples of 1..3 symbolic ints in [-300, 600]; (d) RemoteValueScaling (ranges 0..100, 0..255, 100..0, 255..0, 20..60; int in [-600, 900] and tenths), RemoteValueRaw (payload length 0..4, int in [-2^33, 2^33]), RemoteValueSetpointShift (DPT 6.010, step 0.1/0.5/1, tenths), Switch/Step/UpDown with both invert settings, RemoteValueDptValue1Ucount, RemoteValueSceneNumber, RemoteValueTemp, RemoteValueColorRGB/RGBW/XYY; (e) a finite concrete list of wrong-typed values for every entry point",
    "thorough": "as quick with 240 s per class and 120 s per solver query",
}
OUTSIDE = "payload objects (DPTArray/DPTBinary) built by the caller and handed to send_raw; string datapoint types (C07/C08 cover their encoders); values beyond the stated integer windows; float-coded cells reported as inconclusive (solver budget)"
ASSUMPTIONS = [
    "a value of the wrong Python type may be rejected with TypeError as well as ConversionError (DPTArray/DPTBinary document TypeError; the test suite pins it); in either case nothing may be queued",
    "wire-valid = GroupValueWrite/GroupValueResponse.to_knx() and CEMILData.init_from_telegram(telegram).to_knx() of the queued telegram return without raising",
]
EXPLANATION = "C11: the real entry points run on symbolic values with a real XKNX instance; whatever lands in xknx.telegrams is serialised by the real APCI and cEMI encoders on the symbolic payload, so an octet outside 0..255 shows up as a feasible raising path of bytes(); z3 decides feasibility."
INTERESTING = ["queued", "rejected"]
REQUIRED_REACH = ["queued", "rejected"]

EXTRA = {"inf": float("inf"), "-inf": float("-inf"), "nan": float("nan"), "1e39": 1e39, "-1e39": -1e39, "10**400": 10 ** 400}
WRONG = [None, "abc", 1.5, [1.5], (1, "a"), [None], b"\x01\x02", {"a": 1}, [256], [-1], (300, 1), 64, -1, float("nan"), float("inf"), [], True]


def _groups():
    from props.dpt_common import all_classes
    from props.c08 import is_float_coded
    from xknx.dpt.dpt import DPTNumeric, DPTComplex, DPTEnum
    num = [c for c in all_classes() if issubclass(c, DPTNumeric)]
    heavy_all = [c for c in num if is_float_coded(c.__name__) or c.dpt_main_number == 14]
    light = [c.__name__ for c in num if c not in heavy_all]
    groups = {}
    for k in heavy_all:
        sig = (k.to_knx.__func__, k.value_min, k.value_max, k.resolution, k.payload_length)
        groups.setdefault(sig, []).append(k.__name__)
    other = [c.__name__ for c in all_classes() if issubclass(c, (DPTComplex, DPTEnum))]
    return light, list(groups.values()), other


def jobs(tier, seed):
    from props.dpt_common import chunks
    budget = (45, 40) if tier == "quick" else (240, 120)
    light, heavy, other = _groups()
    out = [dict(name=f"num-{i}", kind="num", classes=ch, budget=budget, cost=len(ch)) for i, ch in enumerate(chunks(light, 8))]
    for members in heavy:
        out.append(dict(name=f"float-{members[0]}", kind="num", classes=[members[0]], same_as=members[1:], budget=budget, cost=100))
        from props.dpt_common import class_by_name
        k = class_by_name(members[0])
        if k.dpt_main_number != 14 and k.value_max - k.value_min < 70000:
            out.append(dict(name=f"tenths-{members[0]}", kind="num", tenths=True, classes=[members[0]], same_as=members[1:], budget=budget, cost=120))
    out += [dict(name=f"complex-{i}", kind="complex", classes=ch, budget=budget, cost=len(ch) * 2) for i, ch in enumerate(chunks(other, 8))]
    out.append(dict(name="raw", kind="raw", budget=budget, cost=10))
    for rv in ("scaling", "scaling-tenths", "rawrv", "setpoint", "binary", "misc", "color"):
        out.append(dict(name=f"rv-{rv}", kind="rv", rv=rv, budget=budget, cost=60))
    out.append(dict(name="wrong-types", kind="wrong", budget=budget, cost=5))
    return out


ENTRIES = ("write", "response", "mcp")


def _send(entry, xk, value, vt):
    """Hand `value` to one of the public entry points."""
    from symx import aio
    from xknx.tools import group_value_response, group_value_write
    if entry == "write":
        group_value_write(xk, "1/2/3", value, vt)
    elif entry == "response":
        group_value_response(xk, "1/2/3", value, vt)
    else:
        import xknx.mcp.tools as tools
        from xknx.mcp.types import GroupValueWriteInput
        aio.drive(tools.send_group_value_write(xk, GroupValueWriteInput(group_address="1/2/3", value=value, value_type=vt)))


def _drain(xk):
    out = []
    while not xk.telegrams.empty():
        out.append(xk.telegrams.get_nowait())
    return out


def _serialise(tg):
    from xknx.cemi import CEMILData
    tg.payload.to_knx()
    return CEMILData.init_from_telegram(tg).to_knx()


def _hints(tp):
    """Type hints of a dataclass with the builtin int/bool/float (the analysed modules see shimmed builtins)."""
    import sys
    import typing
    ns = dict(vars(sys.modules[tp.__module__]))
    import collections.abc
    ns = {**vars(typing), **vars(collections.abc), **ns}
    ns.update(int=int, bool=bool, float=float, tuple=tuple, type=type)
    return typing.get_type_hints(tp, globalns=ns)


def build_value(c, cls, variant):
    """A symbolic value of the class's data type. variant: 'present' | 'none' for optional fields."""
    import dataclasses
    import enum
    import types
    import typing
    from symx import core
    from xknx.dpt.dpt import DPTEnum
    desc = {}

    def of(tp, name):
        origin = typing.get_origin(tp)
        if origin in (typing.Union, types.UnionType):
            args = [a for a in typing.get_args(tp) if a is not type(None)]
            if variant == "none":
                desc[name] = None
                return None
            return of(args[0], name)
        if tp is bool:
            b = c.fresh_bool(name)
            desc[name] = b
            return b
        if tp is int:
            v = c.fresh_int(name, -3, 70000)
            desc[name] = v
            return v
        if tp is float:
            k = c.fresh_int(name + "_tenths", -20, 70000)
            desc[name] = ("tenths", k)
            return k / 10
        if origin is tuple:
            ks = [c.fresh_int(f"{name}{i}_tenths", -5, 15) for i in range(len(typing.get_args(tp)))]
            desc[name] = ("tenths-tuple", ks)
            return tuple(k / 10 for k in ks)
        if isinstance(tp, type) and issubclass(tp, enum.Enum):
            members = list(tp)
            i = core.concretize(c.fresh_int(name + "_member", 0, len(members) - 1))
            desc[name] = ("enum", tp.__name__, members[i].name)
            return members[i]
        if dataclasses.is_dataclass(tp):
            hints = _hints(tp)
            return tp(**{f.name: of(hints[f.name], f"{name}.{f.name}") for f in dataclasses.fields(tp)})
        raise NotImplementedError(f"field type {tp!r}")

    if issubclass(cls, DPTEnum):
        value = of(cls.data_type, "value")
    else:
        hints = _hints(cls.data_type)
        value = cls.data_type(**{f.name: of(hints[f.name], f.name) for f in dataclasses.fields(cls.data_type)})
    return value, desc


def desc_json(core, m, desc):
    out = {}
    for k, v in desc.items():
        if isinstance(v, tuple) and v[0] == "tenths":
            out[k] = dict(tenths=core.model_val(m, v[1]))
        elif isinstance(v, tuple) and v[0] == "tenths-tuple":
            out[k] = dict(tenths_tuple=[core.model_val(m, x) for x in v[1]])
        elif isinstance(v, tuple) and v[0] == "enum":
            out[k] = dict(enum=v[1], member=v[2])
        else:
            out[k] = core.model_val(m, v)
    return out


def value_from_desc(cls, desc):
    """Concrete twin of build_value for the replay."""
    import dataclasses
    import enum
    import types
    import typing
    from xknx.dpt.dpt import DPTEnum

    def of(tp, name):
        origin = typing.get_origin(tp)
        if origin in (typing.Union, types.UnionType):
            if name in desc and desc[name] is None:
                return None
            args = [a for a in typing.get_args(tp) if a is not type(None)]
            return of(args[0], name)
        if dataclasses.is_dataclass(tp):
            hints = _hints(tp)
            return tp(**{f.name: of(hints[f.name], f"{name}.{f.name}") for f in dataclasses.fields(tp)})
        d = desc[name]
        if isinstance(d, dict) and "tenths" in d:
            return d["tenths"] / 10
        if isinstance(d, dict) and "tenths_tuple" in d:
            return tuple(x / 10 for x in d["tenths_tuple"])
        if isinstance(d, dict) and "enum" in d:
            return tp[d["member"]]
        return d

    if issubclass(cls, DPTEnum):
        return of(cls.data_type, "value")
    hints = _hints(cls.data_type)
    return cls.data_type(**{f.name: of(hints[f.name], f.name) for f in dataclasses.fields(cls.data_type)})


def make_rv(xk, spec):
    """Remote value from a JSON-able spec (shared by harness and replay)."""
    import xknx.remote_value as rvm
    from xknx.remote_value.remote_value_setpoint_shift import RemoteValueSetpointShift, SetpointShiftMode
    k = spec["cls"]
    kw = dict(spec.get("kw", {}))
    if k == "RemoteValueSetpointShift":
        return RemoteValueSetpointShift(xk, group_address="1/2/3", setpoint_shift_mode=SetpointShiftMode[kw.pop("mode")], **kw)
    return getattr(rvm, k)(xk, group_address="1/2/3", **kw)


def rv_cases(which):
    """(spec, value-kind, lo, hi) cells of one remote value job."""
    out = []
    if which in ("scaling", "scaling-tenths"):
        kind = "int" if which == "scaling" else "tenths"
        for a, b in ((0, 100), (0, 255), (100, 0), (255, 0), (20, 60)):
            out.append((dict(cls="RemoteValueScaling", kw=dict(range_from=a, range_to=b)), kind, -600, 900))
    elif which == "rawrv":
        for n in range(0, 5):
            out.append((dict(cls="RemoteValueRaw", kw=dict(payload_length=n)), "int", -(1 << 33), 1 << 33))
    elif which == "setpoint":
        for step in (0.1, 0.5, 1):
            out.append((dict(cls="RemoteValueSetpointShift", kw=dict(mode="DPT6010", setpoint_shift_step=step)), "tenths", -1500, 1500))
            out.append((dict(cls="RemoteValueSetpointShift", kw=dict(mode="DPT6010", setpoint_shift_step=step)), "int", -1500, 1500))
        out.append((dict(cls="RemoteValueSetpointShift", kw=dict(mode="DPT9002", setpoint_shift_step=0.1)), "int", -700000, 700000))
    elif which == "binary":
        for inv in (False, True):
            out.append((dict(cls="RemoteValueSwitch", kw=dict(invert=inv)), "bool", 0, 1))
            out.append((dict(cls="RemoteValueSwitch", kw=dict(invert=inv)), "int", -3, 70))
            out.append((dict(cls="RemoteValueStep", kw=dict(invert=inv)), "enum:RemoteValueStep.Direction", 0, 1))
            out.append((dict(cls="RemoteValueUpDown", kw=dict(invert=inv)), "enum:RemoteValueUpDown.Direction", 0, 1))
    elif which == "misc":
        out.append((dict(cls="RemoteValueDptValue1Ucount"), "int", -300, 600))
        out.append((dict(cls="RemoteValueSceneNumber"), "int", -300, 600))
        out.append((dict(cls="RemoteValueTemp"), "int", -700000, 700000))
        out.append((dict(cls="RemoteValueTemp"), "tenths", -3000, 3000))
    elif which == "color":
        out.append((dict(cls="RemoteValueColorRGB"), "tuple3", -300, 600))
        out.append((dict(cls="RemoteValueColorRGBW"), "rgbw", -300, 600))
        out.append((dict(cls="RemoteValueColorXYY"), "xyy", -300, 600))
    return out


def rv_value(c, kind, lo, hi):
    """Symbolic setter argument; returns (value, json-builder(model))."""
    from symx import core
    if kind == "int":
        v = c.fresh_int("value", lo, hi)
        return v, lambda m: core.model_val(m, v)
    if kind == "tenths":
        k = c.fresh_int("tenths", lo * 10, hi * 10)
        return k / 10, lambda m: dict(tenths=core.model_val(m, k))
    if kind == "bool":
        b = c.fresh_bool("value")
        return b, lambda m: core.model_val(m, b)
    if kind.startswith("enum:"):
        import xknx.remote_value as rvm
        owner, inner = kind[5:].split(".")
        members = list(getattr(getattr(rvm, owner), inner))
        i = core.concretize(c.fresh_int("member", 0, len(members) - 1))
        return members[i], lambda m: dict(enum=kind[5:], member=members[i].name)
    if kind == "tuple3":
        vs = tuple(c.fresh_int(f"v{i}", lo, hi) for i in range(3))
        return vs, lambda m: dict(tuple=[core.model_val(m, x) for x in vs])
    if kind == "rgbw":
        from xknx.dpt.dpt_251 import RGBWColor
        vs = tuple(c.fresh_int(f"v{i}", lo, hi) for i in range(4))
        return RGBWColor(*vs), lambda m: dict(rgbw=[core.model_val(m, x) for x in vs])
    if kind == "xyy":
        from xknx.dpt.dpt_242 import XYYColor
        ks = [c.fresh_int(f"c{i}_tenths", -5, 15) for i in range(2)]
        b = c.fresh_int("brightness", lo, hi)
        return XYYColor(color=(ks[0] / 10, ks[1] / 10), brightness=b), lambda m: dict(xyy=[core.model_val(m, ks[0]), core.model_val(m, ks[1]), core.model_val(m, b)])
    raise NotImplementedError(kind)


def rv_value_concrete(j):
    if isinstance(j, dict) and "tenths" in j:
        return j["tenths"] / 10
    if isinstance(j, dict) and "enum" in j:
        import xknx.remote_value as rvm
        owner, inner = j["enum"].split(".")
        return getattr(getattr(rvm, owner), inner)[j["member"]]
    if isinstance(j, dict) and "tuple" in j:
        return tuple(j["tuple"])
    if isinstance(j, dict) and "rgbw" in j:
        from xknx.dpt.dpt_251 import RGBWColor
        return RGBWColor(*j["rgbw"])
    if isinstance(j, dict) and "xyy" in j:
        from xknx.dpt.dpt_242 import XYYColor
        return XYYColor(color=(j["xyy"][0] / 10, j["xyy"][1] / 10), brightness=j["xyy"][2])
    return j


def run_job(job, rep):
    from symx import core, fp
    from vx.harness import trace_functions
    from props.dpt_common import class_by_name
    from xknx import XKNX
    from xknx.exceptions import ConversionError

    fp.MODE["mode"] = "exact"
    fp.MODE["round_ndigits"] = None
    budget, qbudget = job["budget"]
    core.QUERY_TIMEOUT_MS[0] = qbudget * 1000

    def attempt(c, label, send, case_of):
        """Run one send; classify; returns a result tuple for the judge."""
        xk = XKNX()
        c.notes["label"] = label
        c.notes["case_of"] = case_of
        try:
            trace_functions(lambda: send(xk), rep) if len(rep.functions) < 350 and not rep.extra.get(label) else send(xk)
        except ConversionError as e:
            return ("rejected", _drain(xk), e)
        except TypeError as e:
            return ("type-rejected", _drain(xk), e)
        tgs = _drain(xk)
        try:
            for tg in tgs:
                _serialise(tg)
        except Exception as e:  # noqa: BLE001
            return ("unserialisable", tgs, e)
        return ("queued", tgs, None)

    def judge_for(label, wrong_type_ok=False):
        def judge(pr):
            c = pr.ctx
            if pr.kind in ("unsupported", "timeout"):
                rep.inconcl(f"{label}: {pr.kind} {pr.value}"); return
            m = c.current_model()
            case = c.notes["case_of"](m) if "case_of" in c.notes else dict(label=label)
            if pr.kind == "raise":
                rep.ob("refuted", f"undeclared-exception:{label}:{type(pr.value).__name__}", case, repr(pr.value)); return
            kind, tgs, err = pr.value
            if kind in ("rejected", "type-rejected"):
                if tgs:
                    rep.ob("refuted", f"rejected-but-queued:{label}", case, f"{err!r} after queuing {len(tgs)} telegram(s)"); return
                if kind == "type-rejected" and not wrong_type_ok:
                    rep.ob("refuted", f"undeclared-exception:{label}:TypeError", case, repr(err)); return
                rep.reach["rejected"] += 1
                rep.obligations += 1; rep.discharged += 1
                return
            if kind == "unserialisable":
                rep.ob("refuted", f"queued-but-unserialisable:{label}", case, f"queued payload cannot be serialised: {err!r}"); return
            rep.reach["queued"] += 1
            rep.obligations += 1; rep.discharged += 1
            rep.sample(dict(label=label, witness=case), limit=1)
        return judge

    def go(label, run, wrong_type_ok=False):
        rep.extra[label] = False
        _, st = core.explore(run, on_path=judge_for(label, wrong_type_ok), stop=rep.enough, timeout=budget, path_timeout=qbudget)
        rep.extra[label] = True
        rep.add_stats(st)

    if job["kind"] == "num":
        import math
        tenths = job.get("tenths", False)
        for idx, name in enumerate(job["classes"]):
            cls = class_by_name(name)
            entry = ENTRIES[idx % 3] if cls.value_type else "write"
            vt = cls.value_type if entry == "mcp" else cls

            def run(c):
                if tenths:
                    k = c.fresh_int("tenths", (math.ceil(cls.value_min) - 2) * 10, (math.floor(cls.value_max) + 2) * 10)
                    v = k / 10
                    case_of = lambda m: dict(kind="num", cls=name, entry=entry, value=dict(tenths=core.model_val(m, k)))
                else:
                    v = c.fresh_int("value", -(1 << 33), 1 << 33)
                    case_of = lambda m: dict(kind="num", cls=name, entry=entry, value=core.model_val(m, v))
                return attempt(c, name, lambda xk: _send(entry, xk, v, vt), case_of)
            go(name, run)
            if not tenths:
                for key, ev in EXTRA.items():
                    go(name, lambda c: attempt(c, name, lambda xk: _send(entry, xk, ev, vt), lambda m: dict(kind="num", cls=name, entry=entry, value=dict(special=key))))
        return

    if job["kind"] == "complex":
        from xknx.dpt.dpt import DPTEnum
        for idx, name in enumerate(job["classes"]):
            cls = class_by_name(name)
            variants = ["present"]
            if not issubclass(cls, DPTEnum) and "None" in "".join(str(f.type) for f in __import__("dataclasses").fields(cls.data_type)):
                variants.append("none")
            for variant in variants:
                entry = ENTRIES[idx % 2]

                def run(c):
                    try:
                        value, desc = build_value(c, cls, variant)
                    except (ValueError, TypeError):
                        return ("rejected", [], None)      # the data type's own constructor refuses the field values
                    case_of = lambda m: dict(kind="complex", cls=name, entry=entry, fields=desc_json(core, m, desc))
                    return attempt(c, name, lambda xk: _send(entry, xk, value, cls), case_of)
                go(name, run)
        return

    if job["kind"] == "raw":
        for entry in ("write", "response"):
            def run(c):
                v = c.fresh_int("value", -300, 600)
                return attempt(c, "raw-int", lambda xk: _send(entry, xk, v, None), lambda m: dict(kind="raw", entry=entry, value=core.model_val(m, v)))
            go("raw-int", run)
            for n in (1, 2, 3):
                for as_tuple in (False, True):
                    def run(c):
                        vs = [c.fresh_int(f"v{i}", -300, 600) for i in range(n)]
                        val = tuple(vs) if as_tuple else list(vs)
                        return attempt(c, "raw-list", lambda xk: _send(entry, xk, val, None),
                                       lambda m: dict(kind="raw", entry=entry, value=[core.model_val(m, x) for x in vs], as_tuple=as_tuple))
                    go("raw-list", run)
        return

    if job["kind"] == "rv":
        for spec, kind, lo, hi in rv_cases(job["rv"]):
            label = spec["cls"] + ("[" + ",".join(f"{k}={v}" for k, v in spec.get("kw", {}).items()) + "]" if spec.get("kw") else "")
            for response in (False, True) if job["rv"] in ("scaling", "binary") else (False,):
                def run(c):
                    value, vj = rv_value(c, kind, lo, hi)

                    def send(xk):
                        make_rv(xk, spec).set(value, response=response)
                    return attempt(c, label, send, lambda m: dict(kind="rv", spec=spec, value=vj(m), response=response))
                go(label, run)
        return

    if job["kind"] == "wrong":
        light, heavy, other = _groups()
        reps = [light[0], light[len(light) // 2], heavy[0][0], other[0], other[-1], "DPTString"]
        for w_i, w in enumerate(WRONG):
            for entry in ENTRIES:
                for target in [None] + reps:
                    if entry == "mcp" and target is None:
                        continue
                    cls = class_by_name(target) if target else None
                    vt = (cls.value_type if entry == "mcp" else cls) if cls else None
                    if entry == "mcp" and not vt:
                        continue

                    def run(c):
                        return attempt(c, f"wrong-type:{target or 'raw'}", lambda xk: _send(entry, xk, w, vt),
                                       lambda m: dict(kind="wrong", entry=entry, cls=target, index=w_i))
                    go(f"wrong-type:{target or 'raw'}", run, wrong_type_ok=True)
            for spec in (dict(cls="RemoteValueScaling"), dict(cls="RemoteValueRaw", kw=dict(payload_length=1)), dict(cls="RemoteValueRaw", kw=dict(payload_length=0)),
                         dict(cls="RemoteValueSwitch"), dict(cls="RemoteValueStep"), dict(cls="RemoteValueColorRGB"), dict(cls="RemoteValueSetpointShift", kw=dict(mode="DPT6010"))):
                def run(c):
                    return attempt(c, f"wrong-type:{spec['cls']}", lambda xk: make_rv(xk, spec).set(w),
                                   lambda m: dict(kind="wrong", spec=spec, index=w_i))
                go(f"wrong-type:{spec['cls']}", run, wrong_type_ok=True)


def replay(case):
    import asyncio
    from props.dpt_common import class_by_name
    from xknx import XKNX
    from xknx.exceptions import ConversionError

    xk = XKNX()
    k = case["kind"]
    wrong = k == "wrong"

    def conc(v):
        if isinstance(v, dict) and "special" in v:
            return EXTRA[v["special"]]
        return v["tenths"] / 10 if isinstance(v, dict) and "tenths" in v else v

    async def send():
        from xknx.tools import group_value_response, group_value_write

        def helper(entry, value, vt_cls):
            if entry == "write":
                group_value_write(xk, "1/2/3", value, vt_cls)
            elif entry == "response":
                group_value_response(xk, "1/2/3", value, vt_cls)
            else:
                import xknx.mcp.tools as tools
                from xknx.mcp.types import GroupValueWriteInput
                return tools.send_group_value_write(xk, GroupValueWriteInput(group_address="1/2/3", value=value, value_type=vt_cls.value_type))
        if k == "num":
            r = helper(case["entry"], conc(case["value"]), class_by_name(case["cls"]))
        elif k == "complex":
            cls = class_by_name(case["cls"])
            r = helper(case["entry"], value_from_desc(cls, case["fields"]), cls)
        elif k == "raw":
            v = case["value"]
            r = helper(case["entry"], (tuple(v) if case.get("as_tuple") else v) if isinstance(v, list) else v, None)
        elif k == "rv":
            r = make_rv(xk, case["spec"]).set(rv_value_concrete(case["value"]), response=case.get("response", False))
        else:
            w = WRONG[case["index"]]
            if "spec" in case:
                r = make_rv(xk, case["spec"]).set(w)
            else:
                r = helper(case["entry"], w, class_by_name(case["cls"]) if case.get("cls") else None)
        if asyncio.iscoroutine(r):
            await r

    err = None
    try:
        asyncio.run(send())
    except ConversionError as e:
        err = e
    except TypeError as e:
        if not wrong:
            return True, f"{case}: raised {e!r} (not a conversion error)"
        err = e
    except ValueError as e:
        if k == "complex" and "fields" in case:
            # the data type's constructor may refuse the values before the library is reached
            try:
                value_from_desc(class_by_name(case["cls"]), case["fields"])
            except ValueError:
                return False, "constructor refuses"
        return True, f"{case}: raised {e!r} (not a conversion error)"
    except Exception as e:  # noqa: BLE001
        return True, f"{case}: raised {e!r} (not a conversion error)"
    tgs = _drain(xk)
    if err is not None:
        if tgs:
            return True, f"{case}: rejected with {err!r} but {len(tgs)} telegram(s) were queued"
        return False, "rejected"
    for tg in tgs:
        try:
            _serialise(tg)
        except Exception as e:  # noqa: BLE001
            return True, f"{case}: queued {tg.payload!r} which cannot be serialised: {e!r}"
    return False, "ok"
