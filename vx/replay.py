"""Runs in a fresh interpreter WITHOUT the symx loader: replays counterexamples / validates path witnesses against
the real, unshimmed xknx from /repo."""
import importlib
import json
import sys
import traceback


def main():
    inp, out = sys.argv[1], sys.argv[2]
    d = json.load(open(inp))
    assert not any(m.startswith("symx.loader") for m in sys.modules)
    mod = importlib.import_module(d["module"])
    res = []
    for it in d["items"]:
        try:
            if d["kind"] == "replay":
                v, detail = mod.replay(it["case"])
                res.append(dict(violates=bool(v), detail=str(detail)[:1000]))
            else:
                res.append(dict(got=mod.concrete(it["case"])))
        except BaseException as e:  # noqa: BLE001
            res.append(dict(violates=False, error="".join(traceback.format_exception(type(e), e, e.__traceback__))[-1500:], got=None))
    json.dump(res, open(out, "w"))


if __name__ == "__main__":
    main()
