"""C09 Numeric datapoints encode every in-range value within one resolution step."""
from __future__ import annotations

ID = "C09"
BOUNDS = {
    "quick": "every DPTNumeric class of DPTBase.dpt_class_tree(); the value to encode is a symbolic integer over [value_min-3, value_max+3] (clipped to +-2^40): complete for integer-resolution types; for fractional-resolution and float-coded types these are the integer-valued inputs only, decided with exact IEEE-754 semantics under a budget of 45 s per class (cells exceeding it are inconclusive); 8-bit scaling types (5.001, 5.003) additionally with inputs k/10 for symbolic integer k (non-integer values around the range ends); DPT 14.*: integer inputs through to_knx (shape and acceptance only)",
    "thorough": "as quick with 240 s per class and additionally values k*resolution for symbolic integer k",
}
OUTSIDE = "non-integer inputs of fractional types in the quick tier; values beyond +-2^40; cells listed as inconclusive (solver budget) in the evidence"
ASSUMPTIONS = [
    "'within one resolution step' = |from_knx(to_knx(v)) - v| < resolution evaluated in IEEE-754 double arithmetic as Python does; for resolution-1 integer types this is equality",
    "values outside [value_min, value_max] must raise ConversionError",
    "one resolution step of the nearest representable value: declared resolution; for DPT 9.xxx resolution * 2^exponent of the encoded value; for the 8-bit scaling types (5.001, 5.003) (max - min) / 255",
    "classes sharing to_knx/from_knx and declared bounds are decided once (representative named in the job, the others listed as same_as)",
]
EXPLANATION = "C09: to_knx/from_knx of every numeric datapoint class on a symbolic value; z3 decides acceptance of in-range values, payload shape, the resolution bound and rejection of out-of-range values."
INTERESTING = ["accepted", "rejected"]
REQUIRED_REACH = ["accepted", "rejected"]


def jobs(tier, seed):
    from props.dpt_common import all_classes, chunks
    from xknx.dpt.dpt import DPTNumeric
    names = [c.__name__ for c in all_classes() if issubclass(c, DPTNumeric)]
    budget = (45, 40) if tier == "quick" else (240, 120)
    from props.c08 import is_float_coded
    heavy = [n for n in names if is_float_coded(n) or _cls(n).dpt_main_number == 14]
    light = [n for n in names if n not in heavy]
    out = [dict(name=f"int-{i}", classes=ch, budget=budget, cost=len(ch)) for i, ch in enumerate(chunks(light, 8))]
    # classes that share implementation and declared bounds are decided once (the representative is named in the job)
    groups = {}
    for n in heavy:
        k = _cls(n)
        sig = (k.to_knx.__func__, k.from_knx.__func__, k.value_min, k.value_max, k.resolution, k.payload_length)
        groups.setdefault(sig, []).append(n)
    for sig, members in groups.items():
        out.append(dict(name=f"float-{members[0]}", classes=[members[0]], same_as=members[1:], budget=budget, cost=100))
        k = _cls(members[0])
        if k.payload_length == 1 or tier != "quick":
            if k.dpt_main_number != 14 and k.value_max - k.value_min < 70000:
                out.append(dict(name=f"tenths-{members[0]}", classes=[members[0]], same_as=members[1:], tenths=True, budget=budget, cost=120))
    return out


def _cls(n):
    from props.dpt_common import class_by_name
    return class_by_name(n)


def run_job(job, rep):
    import math
    import z3
    from symx import core, fp
    from vx.harness import trace_functions
    from props.dpt_common import class_by_name
    from xknx.dpt import DPTArray
    from xknx.exceptions import ConversionError

    fp.MODE["mode"] = "exact"
    fp.MODE["round_ndigits"] = None
    budget, qbudget = job["budget"]
    core.QUERY_TIMEOUT_MS[0] = qbudget * 1000
    LIM = 1 << 40
    for name in job["classes"]:
        cls = class_by_name(name)
        vmin, vmax, res = cls.value_min, cls.value_max, cls.resolution
        if cls.dpt_main_number == 14:
            lo, hi = -LIM, LIM
        else:
            lo = max(-LIM, math.ceil(vmin) - 3)
            hi = min(LIM, math.floor(vmax) + 3)

        tenths = job.get("tenths", False)

        def run(c):
            if tenths:
                k = c.fresh_int("tenths", (math.ceil(vmin) - 2) * 10, (math.floor(vmax) + 2) * 10)
                c.notes["k"] = k
                v = k / 10            # a float: k/10 in IEEE arithmetic, as a caller computing a fractional value would pass
            else:
                v = c.fresh_int("value", lo, hi)
            c.notes["v"] = v
            try:
                p = trace_functions(lambda: cls.to_knx(v), rep) if len(rep.functions) < 350 and not rep.extra.get(name) else cls.to_knx(v)
            except ConversionError as e:
                return ("rejected", e)
            try:
                back = cls.from_knx(p) if cls.dpt_main_number != 14 else None     # DPT 14 display rounding is outside the exact model
            except ConversionError as e:
                return ("undecodable", p, e)
            return ("accepted", p, back)

        def judge(pr):
            c = pr.ctx
            if pr.kind in ("unsupported", "timeout"):
                rep.inconcl(f"{name}: {pr.kind} {pr.value}"); return
            v = c.notes["v"]
            m = c.current_model()
            mcase = lambda mm: dict(cls=name, value=(core.model_val(mm, c.notes["k"]) / 10) if tenths else core.model_val(mm, v))
            case = mcase(m)
            if pr.kind == "raise":
                rep.ob("refuted", f"to_knx-raises:{name}:{type(pr.value).__name__}", case, repr(pr.value)); return
            if tenths:
                inr = core.sym_and(v >= vmin, v <= vmax)
            else:
                inr = core.sym_and(v >= math.ceil(vmin) if vmin != -math.inf else True, v <= math.floor(vmax) if vmax != math.inf else True)
            if pr.value[0] == "undecodable":
                rep.reach["accepted"] += 1
                rep.ob("refuted", f"encoded-but-undecodable:{name}", case, f"to_knx accepted the value, from_knx rejects the payload it produced: {pr.value[2]!r}"); return
            if pr.value[0] == "rejected":
                rep.reach["rejected"] += 1
                st, mm = c.prove(core.sym_not(inr))
                rep.ob(st, f"in-range-value-rejected:{name}", mcase(mm) if mm is not None else case, f"value within [{vmin}, {vmax}] rejected: {pr.value[1]!r}")
                return
            rep.reach["accepted"] += 1
            _, p, back = pr.value
            if not isinstance(p, DPTArray) or len(p.value) != cls.payload_length:
                rep.ob("refuted", f"payload-shape:{name}", case, repr(p)); return
            st, mm = c.prove(inr)
            rep.ob(st, f"out-of-range-value-accepted:{name}", mcase(mm) if mm is not None else case, f"value outside [{vmin}, {vmax}] encoded instead of rejected")
            if back is None:
                return
            d = back - v
            # one step of the nearest representable value: the declared resolution, scaled by the encoded exponent for
            # DPT 9 (mantissa * 2^exponent * 0.01) and (max - min) / 255 for the 8-bit scaling types
            step = float(res)
            if cls.dpt_main_number == 9:
                e = core.concretize((p.value[0] >> 3) & 0x0F) if core.is_sym(p.value[0]) else (p.value[0] >> 3) & 0x0F
                step = float(res) * (1 << e)
            elif cls.dpt_main_number == 5 and cls.payload_length == 1 and (vmax - vmin) != 255:
                step = max(float(res), (vmax - vmin) / 255)
            if isinstance(d, (fp.SymFloat, float)):
                ok = core.mk_bool(z3.fpLT(z3.fpAbs(fp.fval(d)), z3.FPVal(step, fp.F64)))
            else:
                ok = core.sym_and(d < step, d > -step) if core.is_sym(d) else (abs(d) < step)
            st, mm = c.prove(core.sym_or(core.sym_not(inr), ok))
            rep.ob(st, f"beyond-one-resolution-step:{name}", mcase(mm) if mm is not None else case, f"|from_knx(to_knx(v)) - v| >= resolution {res}")
            rep.sample(dict(cls=name, witness=case["value"]), limit=1)
        rep.extra[name] = True
        _, st = core.explore(run, on_path=judge, stop=rep.enough, timeout=budget, path_timeout=qbudget + 5)
        rep.add_stats(st)


def replay(case):
    import math
    from props.dpt_common import class_by_name
    from xknx.dpt import DPTArray
    from xknx.exceptions import ConversionError
    cls = class_by_name(case["cls"])
    v = case["value"]
    inr = cls.value_min <= v <= cls.value_max
    try:
        p = cls.to_knx(v)
    except ConversionError as e:
        return (True, f"{cls.__name__}.to_knx({v}) rejected although {cls.value_min} <= {v} <= {cls.value_max}: {e}") if inr else (False, "rightly rejected")
    except Exception as e:  # noqa: BLE001
        return True, f"{cls.__name__}.to_knx({v}) raised {e!r}"
    if not inr:
        return True, f"{cls.__name__}.to_knx({v}) accepted a value outside [{cls.value_min}, {cls.value_max}]: {p!r}"
    if not isinstance(p, DPTArray) or len(p.value) != cls.payload_length:
        return True, f"payload shape {p!r}"
    if cls.dpt_main_number == 14:
        return False, "ok"
    try:
        back = cls.from_knx(p)
    except ConversionError as e:
        return True, f"{cls.__name__}.to_knx({v}) = {p!r}, which {cls.__name__}.from_knx rejects: {e}"
    step = float(cls.resolution)
    if cls.dpt_main_number == 9:
        step *= 1 << ((p.value[0] >> 3) & 0x0F)
    elif cls.dpt_main_number == 5 and cls.payload_length == 1 and (cls.value_max - cls.value_min) != 255:
        step = max(step, (cls.value_max - cls.value_min) / 255)
    if not abs(back - v) < step:
        return True, f"{cls.__name__}: {v} -> {p!r} -> {back} (step {step})"
    return False, "ok"
