#!/bin/bash
# usage: tools/try_seed.sh <patch.diff> <Cnn> [<Cnn> ...]   -- applies the patch to /repo, runs the quick checks, reverts.
P=$1; shift
cd /repo || exit 2
git diff --quiet || { echo "repo dirty"; exit 2; }
git apply "$P" || { echo "patch does not apply"; exit 2; }
trap 'git -C /repo checkout -- . ' EXIT
for id in "$@"; do
  ( cd /verif && timeout ${SEED_TIMEOUT:-900} ./check $id --tier ${TIER:-quick} 2>&1 | grep -E "^(C[0-9]+ tier|VIOLATION|HARNESS-ERROR|KNOWN|INCONCL)" | cut -c1-300; echo "exit=${PIPESTATUS[0]}" )
done
