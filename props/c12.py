"""C12 cEMI frame parsing is total with declared errors only."""
from __future__ import annotations

ID = "C12"
FULL_MAX = {"quick": 10, "thorough": 12}
TOP = {"quick": 16, "thorough": 40}
BOUNDS = {
    "quick": "cEMI frame length L = 0..16, every octet symbolic. L <= 10: no cut. L = 11..16: APDU restricted to three representative service families (accepted / malformed / unsupported), the rest of APCI decoding being C04's subject",
    "thorough": "L = 0..40; L <= 12 without cut; L = 13..40 with the three-family APDU restriction",
}
OUTSIDE = "frames longer than the bound; for L above the no-cut bound, APDUs of other services than the three representative families (their decoding outcome class is established by C04; CEMILData.from_knx does not inspect the service object)"
ASSUMPTIONS = [
    "cut (L above the no-cut bound): APCI.from_knx returns an object, raises ConversionError or raises UnsupportedAPCIService (this is C04); represented by APDU families GroupValueWrite (accepted), GroupValueRead/IndividualAddressWrite with wrong length (malformed), APCI 0x3FF (unsupported); each family is validated against the real parser at start-up",
    "input is a bytes object",
]
EXPLANATION = ("C12: CEMIFrame.from_knx (CEMIInfo, CEMILData, CEMIFlags, TPCI.resolve, CEMIMProp*, APCI.from_knx) and "
               "CEMIHandler.handle_raw_cemi (with recorder stubs) run on a fully symbolic frame per length; every path must end in a "
               "frame, CouldNotParseCEMI or UnsupportedCEMIMessage and handle_raw_cemi must never reach logger.exception.")
INTERESTING = ["accepted", "CouldNotParseCEMI", "UnsupportedCEMIMessage"]
REQUIRED_REACH = ["accepted", "CouldNotParseCEMI", "UnsupportedCEMIMessage", "handler_ok"]


def jobs(tier, seed):
    out = []
    for L in range(0, TOP[tier] + 1):
        full = L <= FULL_MAX[tier]
        out.append(dict(name=f"{'full' if full else 'fam'}-L{L}", L=L, full=full, cost=(L * 30 if full else L)))
    for L in range(0, 9 if tier == "quick" else 11):
        out.append(dict(name=f"handler-L{L}", L=L, full=True, handler=True, cost=L * 20))
    return out


def install_family_cut(cf, c_getter):
    """Wrap APCI.from_knx as seen by cemi_frame: assume the APDU is in one of three representative families."""
    import z3
    from symx import core
    import xknx.telegram.apci as apci_mod
    real = apci_mod.APCI
    if getattr(real, "_vx_cut", False):
        return
    orig = real.__dict__["from_knx"].__func__

    def from_knx(cls, apdu):
        a = (apdu[0] * 256 + apdu[1]) & 0x3FF if len(apdu) >= 2 else None
        if a is not None and core.is_sym(a):
            az = core.zint(a)
            n = len(apdu)
            fam = [(az & 0x3C0) == 0x080, az == 0x3FF]
            fam.append(az == (0x000 if n != 2 else 0x0C0))
            core.ctx().add(z3.Or(*fam))
        return orig(cls, apdu)
    real.from_knx = classmethod(from_knx)
    real._vx_cut = True


def validate_families():
    from xknx.telegram.apci import APCI
    from xknx.exceptions import ConversionError, UnsupportedAPCIService
    for n in range(2, 30):
        assert type(APCI.from_knx(bytes([0, 0x80]) + bytes(n - 2))).__name__ == "GroupValueWrite"
        try:
            APCI.from_knx(bytes([3, 0xFF]) + bytes(n - 2)); raise AssertionError
        except UnsupportedAPCIService:
            pass
        try:
            APCI.from_knx((bytes([0, 0x00]) if n != 2 else bytes([0, 0xC0])) + bytes(n - 2)); raise AssertionError
        except UnsupportedAPCIService:
            raise AssertionError
        except ConversionError:
            pass


def make_handler(rec):
    import types
    import xknx.cemi.cemi_handler as ch

    class Log:
        def __getattr__(self, k):
            def f(*a, **kw):
                if k == "exception":
                    rec.append(("logger.exception",))
            return f
    ch.logger = Log()
    ch.data_secure_logger = Log()
    cm = types.SimpleNamespace(cemi_count_incoming=0, cemi_count_incoming_error=0, cemi_count_outgoing=0,
                               cemi_count_outgoing_error=0, undecoded_data_secure=0)
    telegrams = types.SimpleNamespace(put_nowait=lambda t: rec.append(("queue", t)))
    management = types.SimpleNamespace(process=lambda t: rec.append(("management", t)))
    tq = types.SimpleNamespace(received_data_secure_group_key_issue=lambda t: rec.append(("key_issue", t)))
    xk = types.SimpleNamespace(connection_manager=cm, telegrams=telegrams, management=management, telegram_queue=tq,
                               current_address=None)
    h = ch.CEMIHandler.__new__(ch.CEMIHandler)
    h.xknx = xk
    h.data_secure = None
    h._l_data_confirmation_event = types.SimpleNamespace(set=lambda: rec.append(("confirm",)), clear=lambda: None)
    return h, xk


def run_job(job, rep):
    from symx import core
    from vx.harness import trace_functions
    from vx.util import exc_site, describe
    import xknx.cemi.cemi_frame as cf
    from xknx.exceptions import CouldNotParseCEMI, UnsupportedCEMIMessage
    from xknx.telegram import IndividualAddress

    L = job["L"]
    if not job["full"]:
        validate_families()
        install_family_cut(cf, None)
    first = [True]
    handler = job.get("handler")

    def run(c):
        raw = c.fresh_bytes("b", L)
        c.notes["raw"] = raw
        if handler:
            rec = []
            h, xk = make_handler(rec)
            xk.current_address = IndividualAddress(c.fresh_int("own", 0, 65535))
            h.handle_raw_cemi(raw)
            return rec
        if first[0]:
            first[0] = False
            return trace_functions(lambda: cf.CEMIFrame.from_knx(raw), rep)
        return cf.CEMIFrame.from_knx(raw)

    def judge(pr):
        c = pr.ctx
        raw = c.notes["raw"]
        m = c.current_model()
        case = dict(raw=raw.concrete(m).hex(), handler=bool(handler))
        if pr.kind == "timeout":
            rep.violation(f"hang:L{L}", case, "per-path time budget exhausted"); return
        if pr.kind == "unsupported":
            rep.inconcl(f"L={L}: {pr.value}"); return
        if handler:
            if pr.kind == "raise":
                rep.ob("refuted", "handler-raises:" + exc_site(pr.value), case, repr(pr.value)); return
            if any(e[0] == "logger.exception" for e in pr.value):
                rep.ob("refuted", "last-resort-guard-reached", case, "handle_raw_cemi fell back to `except Exception`"); return
            rep.reach["handler_ok"] += 1
            rep.obligations += 1; rep.discharged += 1
            return
        if pr.kind == "ok":
            rep.reach["accepted"] += 1
            rep.reach["code:" + pr.value.code.name] += 1
            rep.witness(case, describe(pr.value), limit=2)
            rep.sample(dict(L=L, witness=case["raw"], outcome="frame " + pr.value.code.name), limit=1)
            rep.obligations += 1; rep.discharged += 1
            return
        e = pr.value
        if isinstance(e, (CouldNotParseCEMI, UnsupportedCEMIMessage)):
            rep.reach[type(e).__name__] += 1
            rep.witness(case, describe(e), limit=2)
            rep.obligations += 1; rep.discharged += 1
        else:
            rep.reach["undeclared"] += 1
            rep.ob("refuted", f"undeclared:{exc_site(e)}", case, repr(e))

    _, st = core.explore(run, on_path=judge, stop=rep.enough, timeout=job.get("budget", 2400))
    rep.add_stats(st)


def concrete(case):
    from vx.util import describe
    from xknx.cemi import CEMIFrame
    try:
        return describe(CEMIFrame.from_knx(bytes.fromhex(case["raw"])))
    except Exception as e:  # noqa: BLE001
        return describe(e)


def replay(case):
    import logging
    from xknx.cemi import CEMIFrame
    from xknx.exceptions import CouldNotParseCEMI, UnsupportedCEMIMessage
    raw = bytes.fromhex(case["raw"])
    if case.get("handler"):
        from xknx import XKNX
        hits = []

        class H(logging.Handler):
            def emit(self, record):
                if record.exc_info:
                    hits.append(record.getMessage())
        lg = logging.getLogger("xknx.cemi")
        hd = H()
        lg.addHandler(hd)
        try:
            import asyncio

            async def go():
                xk = XKNX()
                xk.cemi_handler.handle_raw_cemi(raw)
            try:
                asyncio.run(go())
            except Exception as e:  # noqa: BLE001
                return True, f"handle_raw_cemi raised {e!r}"
        finally:
            lg.removeHandler(hd)
        return (True, "last-resort guard logged: " + hits[0]) if hits else (False, "handled")
    try:
        CEMIFrame.from_knx(raw)
    except (CouldNotParseCEMI, UnsupportedCEMIMessage) as e:
        return False, type(e).__name__
    except Exception as e:  # noqa: BLE001
        return True, f"undeclared {type(e).__name__}: {e}"
    return False, "parsed"
