"""C04 Application-layer decoding is total with declared errors only."""
from __future__ import annotations

ID = "C04"
BOUNDS = {
    "quick": "APDU length L = 0..40, every octet fully symbolic (2^(8L) inputs per length); per-path time budget 30 s",
    "thorough": "APDU length L = 0..255, every octet fully symbolic; per-path time budget 30 s",
}
OUTSIDE = "APDUs longer than the bound; behaviour of the callers of APCI.from_knx (C12/C18 cover those)."
ASSUMPTIONS = [
    "input is a bytes object (type errors for non-bytes arguments are outside the property)",
    "'recognised service' = an APCI code for which apci.py defines a concrete APCI subclass with that CODE; 6-bit-payload services of APCIService own their whole 0x40-aligned region except USER_MESSAGE and ESCAPE",
]
EXPLANATION = ("C04: APCI.from_knx and every service parser reachable from it are executed on a fully symbolic APDU of each "
               "concrete length; every path must end in an object, ConversionError or UnsupportedAPCIService; on every "
               "UnsupportedAPCIService path the solver shows the APCI code cannot be one of the recognised codes.")
INTERESTING = ["accepted", "ConversionError", "UnsupportedAPCIService"]
REQUIRED_REACH = ["accepted", "ConversionError", "UnsupportedAPCIService"]


def jobs(tier, seed):
    top = 40 if tier == "quick" else 255
    return [dict(name=f"L{L}", L=L, cost=L + 1) for L in range(0, top + 1)]


def recognised_codes(apci):
    """(exact codes, region codes) derived from the classes defined in the live module."""
    exact, region = set(), set()

    def walk(c):
        for s in c.__subclasses__():
            walk(s)
            code = getattr(s, "CODE", None)
            if code is None or getattr(s, "__abstractmethods__", None) or _declared_unimplemented(s):
                continue
            v = code.value
            if isinstance(code, apci.APCIService) and v & 0x3F == 0 and code not in (apci.APCIService.USER_MESSAGE, apci.APCIService.ESCAPE):
                region.add(v)
            else:
                exact.add(v)
    walk(apci.APCI)
    return exact, region


def _declared_unimplemented(cls):
    """A service class whose from_knx body is nothing but `raise UnsupportedAPCIService(...)` documents itself as
    not implemented (legacy coupler services); it is not a 'recognised' service in the sense of the property."""
    import ast, inspect, textwrap
    try:
        fn = ast.parse(textwrap.dedent(inspect.getsource(cls.from_knx))).body[0]
    except (OSError, TypeError, SyntaxError):
        return False
    body = [n for n in fn.body if not (isinstance(n, ast.Expr) and isinstance(n.value, ast.Constant))]
    return (len(body) == 1 and isinstance(body[0], ast.Raise) and isinstance(body[0].exc, ast.Call)
            and getattr(body[0].exc.func, "id", "") == "UnsupportedAPCIService")


def run_job(job, rep):
    import z3
    from symx import core
    from vx.util import exc_site, describe
    from vx.harness import trace_functions
    import xknx.telegram.apci as apci
    from xknx.exceptions import ConversionError, UnsupportedAPCIService

    L = job["L"]
    exact, region = recognised_codes(apci)
    first = [True]

    def run(c):
        raw = c.fresh_bytes("b", L)
        c.notes["raw"] = raw
        if first[0]:
            first[0] = False
            return trace_functions(lambda: apci.APCI.from_knx(raw), rep)
        return apci.APCI.from_knx(raw)

    def judge(pr):
        c = pr.ctx
        raw = c.notes["raw"]
        if pr.kind in ("unsupported", "timeout"):
            if pr.kind == "timeout":
                m = c.current_model()
                rep.violation(f"hang@L{L}", dict(raw=raw.concrete(m).hex()), "per-path time budget exhausted")
            else:
                rep.inconcl(f"L={L}: {pr.value}")
            return
        m = c.current_model()
        case = dict(raw=raw.concrete(m).hex())
        if pr.kind == "ok":
            rep.reach["accepted"] += 1
            rep.reach["svc:" + type(pr.value).__name__] += 1
            rep.witness(case, describe(pr.value), limit=3)
            rep.sample(dict(L=L, outcome=describe(pr.value), witness=case["raw"]), limit=2)
            rep.obligations += 1
            rep.discharged += 1
            return
        e = pr.value
        if isinstance(e, UnsupportedAPCIService):
            rep.reach["UnsupportedAPCIService"] += 1
            a = (raw[0] * 256 + raw[1]) & 0x3FF
            az = core.zint(a)
            rec = z3.Or(*([az == v for v in sorted(exact)] + [(az & 0x3C0) == v for v in sorted(region)]))
            st, mm = c.sat(rec)
            if st == "sat":
                cs = dict(raw=raw.concrete(mm).hex())
                rep.ob("refuted", f"unsupported-for-recognised:{core.model_int(mm, a) if core.is_sym(a) else a:#05x}", cs,
                       "recognised service reported as unsupported")
            else:
                rep.ob("proved" if st == "unsat" else "unknown", "unsupported-for-recognised", case)
            rep.witness(case, describe(e), limit=1)
        elif isinstance(e, ConversionError):
            rep.reach["ConversionError"] += 1
            rep.obligations += 1
            rep.discharged += 1
            rep.witness(case, describe(e), limit=2)
        else:
            rep.reach["undeclared"] += 1
            rep.ob("refuted", f"undeclared:{exc_site(e)}", case, repr(e))

    res, st = core.explore(run, on_path=judge, stop=rep.enough, timeout=job.get("budget", 1500))
    rep.add_stats(st)


def concrete(case):
    from vx.util import describe
    from xknx.telegram.apci import APCI
    try:
        return describe(APCI.from_knx(bytes.fromhex(case["raw"])))
    except Exception as e:  # noqa: BLE001
        return describe(e)


def replay(case):
    from xknx.telegram import apci
    from xknx.exceptions import ConversionError, UnsupportedAPCIService
    raw = bytes.fromhex(case["raw"])
    try:
        apci.APCI.from_knx(raw)
    except UnsupportedAPCIService as e:   # subclass of ConversionError: test it first
        if len(raw) >= 2:
            a = (raw[0] * 256 + raw[1]) & 0x3FF
            exact, region = recognised_codes(apci)
            if a in exact or (a & 0x3C0) in region:
                return True, f"recognised APCI {a:#05x} reported unsupported: {e}"
        return False, "UnsupportedAPCIService"
    except ConversionError:
        return False, "ConversionError"
    except Exception as e:  # noqa: BLE001
        return True, f"undeclared {type(e).__name__}: {e}"
    return False, "decoded"
