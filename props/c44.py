"""C44 Address programming never creates an address conflict."""
from __future__ import annotations

ID = "C44"
BOUNDS = {
    "quick": "simulated bus of up to 3 devices with symbolic 16-bit individual addresses, symbolic programming-mode flags and a symbolic behaviour on a connection attempt {answers the descriptor read, refuses (T_Disconnect) while the request is sent or when the connection closes - with or without acknowledging the request first -, silent}; symbolic target address; nm_individual_address_write, nm_individual_address_check, nm_individual_address_read as real coroutines against this bus; serial-number read/write against up to 2 responses with symbolic 48-bit serials and source addresses; dmp_authorize2_r_co for all level triples 0..15",
    "thorough": "same (complete for the stated environment)",
}
OUTSIDE = "buses with more than three devices; timing of responses inside the 3 s collection window (the simulated broadcast context yields its responses and ends); transport-layer details of the connection (C43)"
ASSUMPTIONS = [
    "xknx.management is replaced by a simulated bus (environment): connection() yields a connection whose request()/close behave per the device at that address; broadcast() yields the responses of the devices in programming mode / holding the serial number; send_broadcast records",
    "a device that stays silent on a connection attempt is invisible to any procedure and is not counted as 'using the address'",
    "dmp_authorize2: the device answers the repeated free-access authorisation with the same level as the first one",
]
EXPLANATION = "C44: the real management procedures run as coroutines against a symbolic bus population; z3 enumerates the feasible populations/behaviours and decides the safety conditions on every path."
INTERESTING = ["written", "refused-to-write", "serial-found", "serial-not-found", "authorized"]
REQUIRED_REACH = ["written", "refused-to-write", "serial-found", "serial-not-found", "authorized"]


def jobs(tier, seed):
    return [dict(name=f"write-{n}dev", kind="write", n=n, cost=3 ** n) for n in (0, 1, 2, 3)] + [dict(name="serial", kind="serial"), dict(name="authorize", kind="authorize")]


def run_job(job, rep):
    import contextlib
    import types
    from symx import core, aio
    from vx.harness import trace_functions
    from vx.util import exc_site
    import xknx.management.procedures as procs
    from xknx.management.procedures.network.nm_individual_address_write import nm_individual_address_write
    from xknx.management.procedures.network.nm_individual_address_serial_number_read import nm_individual_address_serial_number_read
    from xknx.management.procedures.network.nm_individual_address_serial_number_write import nm_individual_address_serial_number_write
    from xknx.management.procedures.device.dm_authorize import dmp_authorize2_r_co
    from xknx.exceptions import ManagementConnectionError, ManagementConnectionRefused, ManagementConnectionTimeout
    from xknx.telegram import IndividualAddress, Telegram, apci

    kind = job["kind"]

    class Bus:
        """Environment standing in for xknx.management."""
        def __init__(self, devices):
            self.devices = devices          # list of dict(addr, prog, beh)
            self.broadcasts = []
            self.restarts = []
            self.responses = []

        async def send_broadcast(self, payload):
            self.broadcasts.append(payload)

        @contextlib.asynccontextmanager
        async def connection(self, address, rate_limit=20):
            dev = None
            for d in self.devices:
                if d["addr"] == address.raw:          # forks on symbolic equality
                    # several devices may (wrongly) share the address: any of them that reacts is what the client sees
                    if dev is None or (dev["beh"] == 2 and d["beh"] != 2):
                        dev = d
            bus = self

            class Conn:
                def __init__(self):
                    self.address = address

                async def request(self, payload):
                    if dev is None or dev["beh"] in (2, 4):
                        raise ManagementConnectionTimeout("no ACK")
                    if dev["beh"] == 1:
                        raise ManagementConnectionRefused("disconnected by peer")
                    return Telegram(destination_address=IndividualAddress(0), source_address=address, payload=apci.DeviceDescriptorResponse())

                async def send_data(self, payload, wait_for_ack=True):
                    bus.restarts.append((address.raw, payload))
            yield Conn()
            if dev is not None and dev["beh"] in (3, 4):
                raise ManagementConnectionRefused("Management connection disconnected by the peer.")

        @contextlib.asynccontextmanager
        async def broadcast(self):
            bus = self

            class Ctx:
                async def receive(self, timeout=None):
                    if bus.responses:
                        for t in bus.responses:
                            yield t
                        return
                    for d in bus.devices:
                        if d["prog"]:                  # forks on the symbolic flag
                            yield Telegram(destination_address=IndividualAddress(0), source_address=IndividualAddress(d["addr"]), payload=apci.IndividualAddressResponse())
            yield Ctx()

    if kind == "write":
        n = job["n"]

        def run(c):
            devices = [dict(addr=c.fresh_int(f"addr{i}", 1, 65534), prog=c.fresh_bool(f"prog{i}"), beh=core.concretize(c.fresh_int(f"beh{i}", 0, 4))) for i in range(n)]
            target = c.fresh_int("target", 1, 65534)
            bus = Bus(devices)
            xk = types.SimpleNamespace(management=bus)
            c.notes.update(devices=devices, target=target)
            try:
                f = lambda: aio.drive(nm_individual_address_write(xk, IndividualAddress(target)))
                trace_functions(f, rep) if not rep.functions else f()
                out = "done"
            except ManagementConnectionError as e:
                out = type(e).__name__
            return out, bus

        def judge(pr):
            c = pr.ctx
            if pr.kind in ("unsupported", "timeout"):
                rep.inconcl(f"{job['name']}: {pr.value}"); return
            n_ = c.notes
            m = c.current_model()

            def mcase(mm):
                return dict(kind="write", target=core.model_val(mm, n_["target"]), devices=[dict(addr=core.model_val(mm, d["addr"]), prog=core.model_val(mm, d["prog"]), beh=d["beh"]) for d in n_["devices"]])
            case = mcase(m)
            if pr.kind == "raise":
                rep.ob("refuted", "procedure-raises:" + exc_site(pr.value), case, repr(pr.value)); return
            out, bus = pr.value
            writes = [b for b in bus.broadcasts if isinstance(b, apci.IndividualAddressWrite)]
            devs, tgt = n_["devices"], n_["target"]
            n_prog = sum(core.ite(d["prog"], 1, 0) for d in devs) if devs else 0
            occupied = core.sym_or(*[core.sym_and(d["addr"] == tgt, d["beh"] in (0, 1, 3, 4)) for d in devs]) if devs else False
            conds = []
            if writes:
                rep.reach["written"] += 1
                conds += [len(writes) == 1, writes[0].address.raw == tgt, n_prog == 1, core.sym_not(occupied)]
            else:
                rep.reach["refused-to-write"] += 1
            conds += [a == tgt for a, _ in bus.restarts]
            conds.append(len(bus.restarts) <= 1)
            st, mm = c.prove(core.sym_and(*conds))
            rep.ob(st, "address-write-safety", mcase(mm) if mm is not None else case, f"outcome {out}: writes {len(writes)}, restarts {len(bus.restarts)}")
            rep.sample(dict(witness=case, outcome=out, writes=len(writes)), limit=2)
        _, stt = core.explore(run, on_path=judge, stop=rep.enough, timeout=600)
        rep.add_stats(stt)
        return

    if kind == "serial":
        for nresp in (0, 1, 2):
            def run(c):
                want = c.fresh_bytes("serial", 6)
                target = c.fresh_int("target", 1, 65534)
                bus = Bus([])
                resp = []
                for i in range(nresp):
                    s = c.fresh_bytes(f"rs{i}_", 6)
                    a = c.fresh_int(f"ra{i}", 1, 65534)
                    resp.append((s, a))
                    bus.responses.append(Telegram(destination_address=IndividualAddress(0), source_address=IndividualAddress(a),
                                                  payload=apci.IndividualAddressSerialResponse(serial=s, address=IndividualAddress(a))))
                xk = types.SimpleNamespace(management=bus)
                c.notes.update(want=want, target=target, resp=resp)
                r = aio.drive(nm_individual_address_serial_number_read(xk, want))[1]
                try:
                    aio.drive(nm_individual_address_serial_number_write(xk, want, IndividualAddress(target)))
                    w = "validated"
                except ManagementConnectionError:
                    w = "failed"
                return r, w

            def judge(pr):
                c = pr.ctx
                n_ = c.notes
                m = c.current_model()
                mcase = lambda mm: dict(kind="serial", serial=core.model_val(mm, n_["want"]).hex(), target=core.model_val(mm, n_["target"]),
                                        responses=[[core.model_val(mm, s).hex(), core.model_val(mm, a)] for s, a in n_["resp"]])
                case = mcase(m)
                if pr.kind != "ok":
                    rep.ob("refuted", "serial-procedure-raises:" + (exc_site(pr.value) if pr.kind == "raise" else pr.kind), case, repr(pr.value)); return
                r, w = pr.value
                matching = [core.sym_and(s == n_["want"]) for s, a in n_["resp"]]
                first_match_addr = None
                if r is None:
                    rep.reach["serial-not-found"] += 1
                    ok = core.sym_not(core.sym_or(*matching)) if matching else True
                else:
                    rep.reach["serial-found"] += 1
                    ok = core.sym_or(*[core.sym_and(mt, r.raw == a) for mt, (s, a) in zip(matching, n_["resp"])]) if matching else False
                if w == "validated":
                    ok = core.sym_and(ok, core.sym_or(*[core.sym_and(mt, a == n_["target"]) for mt, (s, a) in zip(matching, n_["resp"])]) if matching else False)
                st, mm = c.prove(ok)
                rep.ob(st, "serial-procedure-acts-on-foreign-serial", mcase(mm) if mm is not None else case, f"read returned {r}, write {w}")
                rep.sample(dict(witness=case, read=str(r), write=w), limit=2)
            _, stt = core.explore(run, on_path=judge, stop=rep.enough)
            rep.add_stats(stt)
        return

    def run(c):
        free, client = c.fresh_int("free_level", 0, 15), c.fresh_int("client_level", 0, 15)
        keys = []

        class Conn:
            async def request(self, payload):
                keys.append(payload.key)
                lvl = free if payload.key == 0xFFFFFFFF else client
                return types.SimpleNamespace(payload=apci.AuthorizeResponse(level=lvl))
        c.notes.update(free=free, client=client)
        f = lambda: aio.drive(dmp_authorize2_r_co(Conn(), 0x11223344))[1]
        return trace_functions(f, rep) if not rep.functions else f()

    def judge(pr):
        c = pr.ctx
        n_ = c.notes
        m = c.current_model()
        mcase = lambda mm: dict(kind="authorize", free=core.model_val(mm, n_["free"]), client=core.model_val(mm, n_["client"]))
        if pr.kind != "ok":
            rep.ob("refuted", "authorize-raises", mcase(m), repr(pr.value)); return
        rep.reach["authorized"] += 1
        st, mm = c.prove(pr.value == core.ite(n_["free"] < n_["client"], n_["free"], n_["client"]))
        rep.ob(st, "authorize-not-best-level", mcase(mm) if mm is not None else mcase(m), "returned level is not the better (lower) of the two")
        rep.sample(dict(witness=mcase(m)))
    _, stt = core.explore(run, on_path=judge, stop=rep.enough)
    rep.add_stats(stt)


def replay(case):
    import asyncio
    import contextlib
    import types
    from xknx.management.procedures.network.nm_individual_address_write import nm_individual_address_write
    from xknx.management.procedures.network.nm_individual_address_serial_number_read import nm_individual_address_serial_number_read
    from xknx.management.procedures.network.nm_individual_address_serial_number_write import nm_individual_address_serial_number_write
    from xknx.management.procedures.device.dm_authorize import dmp_authorize2_r_co
    from xknx.exceptions import ManagementConnectionError, ManagementConnectionRefused, ManagementConnectionTimeout
    from xknx.telegram import IndividualAddress, Telegram, apci

    class Bus:
        def __init__(self, devices, responses=()):
            self.devices, self.broadcasts, self.restarts, self.responses = devices, [], [], list(responses)

        async def send_broadcast(self, payload):
            self.broadcasts.append(payload)

        @contextlib.asynccontextmanager
        async def connection(self, address, rate_limit=20):
            at = [d for d in self.devices if d["addr"] == address.raw]
            dev = next((d for d in at if d["beh"] != 2), at[0] if at else None)
            bus = self

            class Conn:
                def __init__(self):
                    self.address = address

                async def request(self, payload):
                    if dev is None or dev["beh"] in (2, 4):
                        raise ManagementConnectionTimeout("no ACK")
                    if dev["beh"] == 1:
                        raise ManagementConnectionRefused("refused")
                    return Telegram(destination_address=IndividualAddress(0), source_address=address, payload=apci.DeviceDescriptorResponse())

                async def send_data(self, payload, wait_for_ack=True):
                    bus.restarts.append((address.raw, payload))
            yield Conn()
            if dev is not None and dev["beh"] in (3, 4):
                raise ManagementConnectionRefused("disconnected by the peer")

        @contextlib.asynccontextmanager
        async def broadcast(self):
            bus = self

            class Ctx:
                async def receive(self, timeout=None):
                    if bus.responses:
                        for t in bus.responses:
                            yield t
                        return
                    for d in bus.devices:
                        if d["prog"]:
                            yield Telegram(destination_address=IndividualAddress(0), source_address=IndividualAddress(d["addr"]), payload=apci.IndividualAddressResponse())
            yield Ctx()

    async def go():
        if case["kind"] == "write":
            bus = Bus(case["devices"])
            xk = types.SimpleNamespace(management=bus)
            try:
                await nm_individual_address_write(xk, IndividualAddress(case["target"]))
            except ManagementConnectionError:
                pass
            writes = [b for b in bus.broadcasts if isinstance(b, apci.IndividualAddressWrite)]
            n_prog = sum(1 for d in case["devices"] if d["prog"])
            occupied = any(d["addr"] == case["target"] and d["beh"] in (0, 1, 3, 4) for d in case["devices"])
            if writes and (n_prog != 1 or occupied or writes[0].address.raw != case["target"] or len(writes) != 1):
                return True, f"address {IndividualAddress(case['target'])} written with {n_prog} devices in programming mode, target occupied={occupied}; bus {case['devices']}"
            if any(a != case["target"] for a, _ in bus.restarts) or len(bus.restarts) > 1:
                return True, f"restart sent to {bus.restarts}"
            return False, "ok"
        if case["kind"] == "serial":
            want = bytes.fromhex(case["serial"])
            resp = [Telegram(destination_address=IndividualAddress(0), source_address=IndividualAddress(a), payload=apci.IndividualAddressSerialResponse(serial=bytes.fromhex(s), address=IndividualAddress(a)))
                    for s, a in case["responses"]]
            xk = types.SimpleNamespace(management=Bus([], resp))
            r = await nm_individual_address_serial_number_read(xk, want)
            match = [a for s, a in case["responses"] if bytes.fromhex(s) == want]
            if (r is None) != (not match) or (r is not None and r.raw not in match):
                return True, f"serial read for {case['serial']} returned {r} with responses {case['responses']}"
            try:
                await nm_individual_address_serial_number_write(xk, want, IndividualAddress(case["target"]))
                if case["target"] not in match:
                    return True, f"serial write validated although no response with serial {case['serial']} came from {case['target']}"
            except ManagementConnectionError:
                pass
            return False, "ok"

        class Conn:
            async def request(self, payload):
                return types.SimpleNamespace(payload=apci.AuthorizeResponse(level=case["free"] if payload.key == 0xFFFFFFFF else case["client"]))
        lvl = await dmp_authorize2_r_co(Conn(), 0x11223344)
        return lvl != min(case["free"], case["client"]), f"authorize2 returned {lvl} for free {case['free']} / client {case['client']}"
    return asyncio.run(go())
