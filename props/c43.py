"""C43 Point-to-point management connections follow the transport-layer protocol."""
from __future__ import annotations

ID = "C43"
BOUNDS = {
    "quick": "(a) one step of P2PConnection.process from an arbitrary state (expected sequence number 0..15 symbolic; ack waiter absent/pending/done; response waiter pending/done) for every transport PDU kind with symbolic sequence number; (b) one step of Management.process with and without an open connection for every PDU kind; (c) P2PConnection.send_data as one coroutine against every environment schedule (ACK with any number / NAK / timeout, twice; send errors); (d) 40 successive outgoing sequence numbers; (e) P2PConnection._receive as one coroutine for {matching response, response of another type, timeout}",
    "thorough": "same (complete for the stated environment)",
}
OUTSIDE = "timeouts racing responses inside the event loop, the rate limiter's real-time sleeps, several connections at once (the connection table is a dict keyed by address)"
ASSUMPTIONS = [
    "futures are real asyncio futures of a private loop in (a),(b); in (c) awaiting the ack future is answered by the environment (result or TimeoutError as asyncio.timeout would raise); cemi_handler.send_telegram and task_registry.background are recorders",
    "acknowledgement oracle (property text): a received T_Data_Connected is acknowledged only if a connection to its source is open and its number is the expected or the immediately preceding one",
]
EXPLANATION = "C43: the real transport-layer code runs on symbolic sequence numbers and waiter states; z3 decides sequence handling; every feasible environment schedule of send_data is explored."
INTERESTING = ["response-consumed", "ignored", "acked", "disconnect", "sent-acked", "sent-failed"]
REQUIRED_REACH = ["response-consumed", "ignored", "acked", "disconnect", "sent-acked", "sent-failed"]
PDUS = ["TDisconnect", "TAck", "TNak", "TDataConnected", "TConnect", "TDataIndividual"]


def jobs(tier, seed):
    out = []
    for ack in ("none", "pending", "done"):
        for resp in ("pending", "done"):
            out.append(dict(name=f"process-ack_{ack}-resp_{resp}", kind="process", ack=ack, resp=resp))
    out += [dict(name="management-open", kind="management", open=True), dict(name="management-closed", kind="management", open=False),
            dict(name="send_data", kind="send"), dict(name="seqgen", kind="seqgen"), dict(name="receive", kind="receive")]
    return out


def run_job(job, rep):
    import asyncio
    import types
    from symx import core, aio
    from vx.harness import trace_functions
    from vx.util import exc_site
    import xknx.management.management as mg
    import xknx.telegram.tpci as tp
    from xknx.telegram import IndividualAddress, Telegram
    from xknx.telegram.apci import DeviceDescriptorRead, DeviceDescriptorResponse
    from xknx.exceptions import ManagementConnectionError, ManagementConnectionTimeout, ManagementConnectionRefused, CommunicationError, ConfirmationError

    loop = asyncio.new_event_loop()
    kind = job["kind"]
    PEER = IndividualAddress(0x1105)

    def mk_conn(c):
        p = mg.P2PConnection.__new__(mg.P2PConnection)
        p.xknx = types.SimpleNamespace(current_address=IndividualAddress(0x1101))
        p.address = PEER
        p.disconnect_hook = lambda: None
        p.rate_limit = 0
        p.sequence_number = p._sequence_number_generator()
        p._expected_sequence_number = c.fresh_int("expected", 0, 15)
        p._connected = True
        p._last_response_time = 0
        return p

    def mk_pdu(c, name):
        cls = getattr(tp, name)
        if "sequence_number" in getattr(cls, "__slots__", ()):
            s = c.fresh_int("seq", 0, 15)
            return cls(s), s
        return cls(), None

    if kind == "process":
        for name in PDUS:
            def run(c):
                p = mk_conn(c)
                p._ack_waiter = None if job["ack"] == "none" else loop.create_future()
                if job["ack"] == "done":
                    p._ack_waiter.set_result(tp.TAck(0))
                p._response_waiter = loop.create_future()
                if job["resp"] == "done":
                    p._response_waiter.set_result(Telegram(destination_address=PEER))
                pdu, s = mk_pdu(c, name)
                e0 = p._expected_sequence_number
                c.notes.update(e0=e0, s=s)
                tg = Telegram(destination_address=IndividualAddress(0x1101), source_address=PEER, tpci=pdu,
                              payload=DeviceDescriptorResponse() if not pdu.control else None)
                f = lambda: p.process(tg)
                trace_functions(f, rep) if not rep.functions else f()
                consumed = job["resp"] == "pending" and p._response_waiter.done() and p._response_waiter.exception() is None and not p._response_waiter.cancelled()
                if p._response_waiter.done() and not p._response_waiter.cancelled() and p._response_waiter.exception() is not None:
                    pass
                return consumed, p._expected_sequence_number, p._connected

            def judge(pr):
                c = pr.ctx
                n_ = c.notes
                m = c.current_model()
                mcase = lambda mm: dict(kind="process", pdu=name, ack=job["ack"], resp=job["resp"], expected=core.model_val(mm, n_["e0"]), seq=core.model_val(mm, n_["s"]))
                case = mcase(m)
                if pr.kind != "ok":
                    rep.ob("refuted", f"process-raises:{name}:ack_{job['ack']}:resp_{job['resp']}:{type(pr.value).__name__ if pr.kind == 'raise' else pr.kind}", case, repr(pr.value)); return
                consumed, e1, connected = pr.value
                e0, s = n_["e0"], n_["s"]
                if name == "TDisconnect":
                    rep.reach["disconnect"] += 1
                    ok = core.sym_and(e1 == e0, connected is False)
                elif consumed:
                    rep.reach["response-consumed"] += 1
                    ok = core.sym_and(name == "TDataConnected", s == e0, e1 == core.ite(e0 == 15, 0, e0 + 1))
                else:
                    rep.reach["ignored"] += 1
                    ok = core.sym_and(e1 == e0)
                    if name == "TDataConnected" and job["resp"] == "pending":
                        ok = core.sym_and(ok, s != e0)
                st, mm = c.prove(ok)
                rep.ob(st, f"process-sequence:{name}", mcase(mm) if mm is not None else case, "response consumed with a wrong number / expected number moved")
                rep.sample(dict(witness=case, consumed=consumed), limit=1)
            _, stt = core.explore(run, on_path=judge, stop=rep.enough)
            rep.add_stats(stt)
        loop.close()
        return

    if kind == "management":
        for name in PDUS + ["TDataBroadcast"]:
            def run(c):
                bg = []
                xk = types.SimpleNamespace(current_address=IndividualAddress(0x1101),
                                           task_registry=types.SimpleNamespace(background=lambda coro: (bg.append(coro.cr_frame.f_locals.get("telegram")), coro.close())),
                                           cemi_handler=types.SimpleNamespace(send_telegram=lambda telegram: _send(telegram)))

                async def _send(telegram):
                    return None
                m_ = mg.Management(xk)
                p = None
                if job["open"]:
                    p = mk_conn(c)
                    p.xknx = xk
                    p._ack_waiter = None
                    p._response_waiter = loop.create_future()
                    m_._connections[PEER] = p
                pdu, s = mk_pdu(c, name)
                e0 = p._expected_sequence_number if p else None
                c.notes.update(e0=e0, s=s)
                tg = Telegram(destination_address=IndividualAddress(0x1101), source_address=PEER, tpci=pdu, payload=DeviceDescriptorResponse() if not pdu.control else None)
                f = lambda: m_.process(tg)
                trace_functions(f, rep) if not rep.functions else f()
                return [t.tpci for t in bg if t is not None]

            def judge(pr):
                c = pr.ctx
                n_ = c.notes
                m = c.current_model()
                mcase = lambda mm: dict(kind="management", pdu=name, open=job["open"], expected=core.model_val(mm, n_["e0"]), seq=core.model_val(mm, n_["s"]))
                case = mcase(m)
                if pr.kind != "ok":
                    rep.ob("refuted", f"management-raises:{name}:{type(pr.value).__name__ if pr.kind == 'raise' else pr.kind}", case, repr(pr.value)); return
                acks = [t for t in pr.value if isinstance(t, tp.TAck)]
                if acks:
                    rep.reach["acked"] += 1
                    if not job["open"]:
                        rep.ob("refuted", "ack-without-open-connection", case, "T_Data_Connected acknowledged although no connection to its source is open"); return
                    e0, s = n_["e0"], n_["s"]
                    st, mm = c.prove(core.sym_and(len(acks) == 1, acks[0].sequence_number == s, core.sym_or(s == e0, s == ((e0 - 1) & 0xF))))
                    rep.ob(st, "ack-for-unexpected-number", mcase(mm) if mm is not None else case, "T_Data_Connected with a number that is neither expected nor the preceding one acknowledged")
                else:
                    rep.reach["ignored"] += 1
                    rep.ob("proved" if name != "TDataConnected" else "refuted", "expected-frame-not-acknowledged" if name == "TDataConnected" else "ok", case, "")
            _, stt = core.explore(run, on_path=judge, stop=rep.enough)
            rep.add_stats(stt)
        loop.close()
        return

    if kind == "receive":
        # _receive as one coroutine: the awaited response waiter is answered by the environment (matching response, response of
        # another type, or timeout); afterwards a fresh, unresolved waiter must be in place for the next request
        def run(c):
            log = []
            outcome = core.concretize(c.fresh_int("outcome", 0, 2))
            made = []

            class EnvFuture:
                def __init__(self):
                    self._done = False
                    made.append(self)

                def done(self):
                    return self._done

                def cancel(self):
                    self._done = True

                def __await__(self):
                    self._done = True
                    if outcome == 2:
                        raise TimeoutError()
                    payload = DeviceDescriptorResponse() if outcome == 0 else DeviceDescriptorRead(0)
                    return Telegram(destination_address=IndividualAddress(0x1101), source_address=PEER, payload=payload)
                    yield

            class Timeout:
                def __init__(self, d):
                    log.append(("timeout", d))

                async def __aenter__(self):
                    return self

                async def __aexit__(self, *a):
                    return False
            mg.asyncio = aio.asyncio_shim(log, extra=dict(timeout=Timeout, get_event_loop=lambda: types.SimpleNamespace(create_future=EnvFuture)))
            p = mk_conn(c)
            p._ack_waiter = None
            first = EnvFuture()
            p._response_waiter = first
            try:
                aio.drive(p._receive(DeviceDescriptorResponse))
                res = "returned"
            except (ManagementConnectionTimeout, ManagementConnectionError) as e:
                res = type(e).__name__
            return outcome, res, p._response_waiter is not first and not p._response_waiter.done()

        def judge(pr):
            if pr.kind != "ok":
                rep.ob("refuted", "receive-raises", dict(kind="receive", outcome=-1), repr(pr.value)); return
            outcome, res, fresh = pr.value
            exp = {0: "returned", 1: "ManagementConnectionError", 2: "ManagementConnectionTimeout"}[outcome]
            rep.reach["response-consumed" if outcome == 0 else "sent-failed"] += 1
            rep.ob("proved" if (res == exp and fresh) else "refuted", f"receive-leaves-stale-waiter:{outcome}", dict(kind="receive", outcome=outcome), f"outcome {outcome}: {res}, fresh waiter {fresh}")
        _, stt = core.explore(run, on_path=judge, stop=rep.enough)
        rep.add_stats(stt)
        loop.close()
        return

    if kind == "seqgen":
        g = mg.P2PConnection._sequence_number_generator()
        vals = [next(g) for _ in range(40)]
        rep.stats["paths"] += 1
        rep.ob("proved" if vals == [i % 16 for i in range(40)] else "refuted", "outgoing-numbers-not-modulo-16", dict(kind="seqgen"), str(vals))
        rep.sample(dict(kind="seqgen", first=vals[:18]))
        rep.reach["sent-acked"] += 0
        return

    # ---- send_data against the environment
    def run(c):
        log = []
        sent = []
        env_ack = []

        class EnvFuture:
            def __init__(self):
                self._done = False

            def done(self):
                return self._done

            def cancel(self):
                self._done = True

            def set_result(self, v):
                self._done = True

            def __await__(self):
                i = len(env_ack)
                o = core.concretize(c.fresh_int(f"ack_outcome{i}", 0, 2))      # 0 ACK, 1 NAK, 2 timeout
                if o == 2:
                    env_ack.append(("timeout",))
                    raise TimeoutError()
                s = c.fresh_int(f"ack_seq{i}", 0, 15)
                env_ack.append(("ack" if o == 0 else "nak", s))
                self._done = True
                return (tp.TAck if o == 0 else tp.TNak)(s)
                yield

        class Timeout:
            def __init__(self, d):
                log.append(("timeout", d))

            async def __aenter__(self):
                return self

            async def __aexit__(self, *a):
                return False
        mg.asyncio = aio.asyncio_shim(log, extra=dict(timeout=Timeout, get_event_loop=lambda: types.SimpleNamespace(create_future=EnvFuture)))
        p = mk_conn(c)
        p._ack_waiter = None

        sends = []
        c.notes["env"] = env_ack
        c.notes["sends"] = sends

        async def send_telegram(telegram):
            sent.append(telegram)
            o = core.concretize(c.fresh_int(f"send_outcome{len(sent)}", 0, 2))
            sends.append(o)
            if o == 1:
                raise ConfirmationError("no L_DATA.con")
            if o == 2:
                raise CommunicationError("link down")
        p.xknx = types.SimpleNamespace(current_address=IndividualAddress(0x1101), cemi_handler=types.SimpleNamespace(send_telegram=send_telegram))
        res = []
        for _ in range(2):
            n0, a0 = len(sent), len(env_ack)
            try:
                f = lambda: aio.drive(p.send_data(DeviceDescriptorRead(0)))
                trace_functions(f, rep) if not rep.functions else f()
                res.append(("ok", sent[n0:], env_ack[a0:], p._ack_waiter))
            except (ManagementConnectionError, ManagementConnectionTimeout) as e:
                res.append((type(e).__name__, sent[n0:], env_ack[a0:], p._ack_waiter))
        c.notes["env"] = env_ack
        c.notes["sends"] = sends
        return res

    def judge(pr):
        c = pr.ctx
        m = c.current_model()
        env = [(e[0],) + tuple(core.model_val(m, x) for x in e[1:]) for e in c.notes.get("env", [])]
        case = dict(kind="send", env=env, sends=c.notes.get("sends", []))
        if pr.kind != "ok":
            rep.ob("refuted", "send_data-raises:" + (exc_site(pr.value) if pr.kind == "raise" else pr.kind), case, repr(pr.value)); return
        conds = []
        for call_i, (tag, tx, acks, waiter) in enumerate(pr.value):
            num = call_i % 16
            # repetitions reuse the number of the call; at most one repetition; ack waiter cleared afterwards
            conds += [t.tpci.sequence_number == num for t in tx]
            conds += [len(tx) <= 2, waiter is None]
            if tag == "ok":
                rep.reach["sent-acked"] += 1
                last = acks[-1]
                conds += [last[0] == "ack", last[1] == num]
            else:
                rep.reach["sent-failed"] += 1
        st, mm = c.prove(core.sym_and(*conds))
        rep.ob(st, "send_data-protocol", case, f"send_data outcomes {[(t, len(x)) for t, x, _, _ in pr.value]} for environment {env}")
        rep.sample(dict(env=env, outcome=[t for t, *_ in pr.value]), limit=3)

    _, stt = core.explore(run, on_path=judge, stop=rep.enough, timeout=600)
    rep.add_stats(stt)
    loop.close()


def replay(case):
    import asyncio
    from unittest.mock import Mock, AsyncMock
    from xknx import XKNX
    import xknx.management.management as mg
    import xknx.telegram.tpci as tp
    from xknx.telegram import IndividualAddress, Telegram
    from xknx.telegram.apci import DeviceDescriptorResponse
    PEER = IndividualAddress(0x1105)

    async def go():
        xk = XKNX()
        xk.cemi_handler = Mock()
        xk.cemi_handler.send_telegram = AsyncMock()
        if case["kind"] == "seqgen":
            g = mg.P2PConnection._sequence_number_generator()
            vals = [next(g) for _ in range(40)]
            return vals != [i % 16 for i in range(40)], str(vals)
        if case["kind"] == "receive":
            from unittest.mock import patch
            from xknx.exceptions import ManagementConnectionError
            from xknx.telegram.apci import DeviceDescriptorRead
            loop = asyncio.get_running_loop()
            p = mg.P2PConnection(xk, PEER)
            p._connected = True
            first = p._response_waiter
            if case["outcome"] in (0, 1):
                payload = DeviceDescriptorResponse() if case["outcome"] == 0 else DeviceDescriptorRead(0)
                first.set_result(Telegram(destination_address=IndividualAddress(0x1101), source_address=PEER, payload=payload))
            with patch.object(mg, "MANAGAMENT_CONNECTION_TIMEOUT", 0.05):
                try:
                    await p._receive(DeviceDescriptorResponse)
                except ManagementConnectionError:
                    pass
            if p._response_waiter is first or p._response_waiter.done():
                return True, f"after _receive (environment outcome {case['outcome']}) the response waiter is stale: the next response would be dropped"
            return False, "ok"
        if case["kind"] == "send":
            from unittest.mock import patch
            from xknx.exceptions import CommunicationError, ConfirmationError, ManagementConnectionError
            from xknx.telegram.apci import DeviceDescriptorRead
            loop = asyncio.get_running_loop()
            p = mg.P2PConnection(xk, PEER)
            p._connected = True
            env, sends = list(case["env"]), list(case["sends"])

            async def send_telegram(telegram):
                o = sends.pop(0) if sends else 0
                if o == 1:
                    raise ConfirmationError("no L_DATA.con")
                if o == 2:
                    raise CommunicationError("link down")
                if env:
                    e = env.pop(0)
                    if e[0] in ("ack", "nak"):
                        cls = tp.TAck if e[0] == "ack" else tp.TNak
                        loop.call_soon(p.process, Telegram(destination_address=IndividualAddress(0x1101), source_address=PEER, tpci=cls(e[1])))
            xk.cemi_handler.send_telegram = send_telegram
            with patch.object(mg, "MANAGAMENT_ACK_TIMEOUT", 0.05):
                for _ in range(2):
                    try:
                        await p.send_data(DeviceDescriptorRead(0))
                    except ManagementConnectionError:
                        pass
                    except Exception as e:  # noqa: BLE001
                        return True, f"send_data failed with {e!r}, which is not a management error (environment: sends {case['sends']}, acks {case['env']})"
            return False, "ok"
        cls = getattr(tp, case["pdu"])
        pdu = cls(case["seq"]) if case.get("seq") is not None else cls()
        tg = Telegram(destination_address=IndividualAddress(0x1101), source_address=PEER, tpci=pdu, payload=DeviceDescriptorResponse() if not pdu.control else None)
        if case["kind"] == "process":
            p = mg.P2PConnection(xk, PEER)
            p._connected = True
            p._expected_sequence_number = case["expected"]
            p.disconnect_hook = lambda: None
            loop = asyncio.get_running_loop()
            p._ack_waiter = None if case["ack"] == "none" else loop.create_future()
            if case["ack"] == "done":
                p._ack_waiter.set_result(tp.TAck(0))
            if case["resp"] == "done":
                p._response_waiter.set_result(Telegram(destination_address=PEER))
            try:
                p.process(tg)
            except Exception as e:  # noqa: BLE001
                return True, f"P2PConnection.process({pdu!r}) with ack waiter {case['ack']} / response waiter {case['resp']} raised {e!r}"
            consumed = case["resp"] == "pending" and p._response_waiter.done() and not p._response_waiter.cancelled() and p._response_waiter.exception() is None
            e0, e1 = case["expected"], p._expected_sequence_number
            if consumed and not (case["pdu"] == "TDataConnected" and case["seq"] == e0 and e1 == (e0 + 1) % 16):
                return True, f"response with number {case['seq']} consumed, expected {e0} -> {e1}"
            if not consumed and e1 != e0:
                return True, "expected number moved without a consumed response"
            for f in (p._ack_waiter, p._response_waiter):
                if f is not None and f.done() and not f.cancelled():
                    f.exception()
            return False, "ok"
        sent = []
        xk.cemi_handler.send_telegram = AsyncMock(side_effect=lambda telegram: sent.append(telegram))
        if case["open"]:
            p = mg.P2PConnection(xk, PEER)
            p._connected = True
            p._expected_sequence_number = case["expected"]
            xk.management._connections[PEER] = p
        try:
            xk.management.process(tg)
        except Exception as e:  # noqa: BLE001
            return True, f"Management.process raised {e!r}"
        await asyncio.sleep(0.01)
        acks = [t for t in sent if isinstance(t.tpci, tp.TAck)]
        if acks and not case["open"]:
            return True, f"{pdu!r} from {PEER} acknowledged although no connection is open"
        if acks and case["seq"] not in (case["expected"], (case["expected"] - 1) % 16):
            return True, f"{pdu!r} acknowledged with expected number {case['expected']}"
        return False, "ok"
    return asyncio.run(go())
