"""C07 Datapoint decoding is total with declared errors only."""
from __future__ import annotations

ID = "C07"
BOUNDS = {
    "quick": "every class of DPTBase.dpt_class_tree() (enumerated at run time); payloads: DPTBinary with any 6-bit value, DPTArray of every length 0..declared length+2 (at most 16) with all octets symbolic; also through GroupAddressDPT.set_decoded_data for the declared-length payloads",
    "thorough": "same with array lengths up to 20",
}
OUTSIDE = "arrays longer than the bound (rejected by the length check of validate_payload, which the bound already exercises with two overlong lengths)"
ASSUMPTIONS = [
    "float arithmetic is over-approximated (havoc): results of + - * / and round(x, n) are arbitrary floats, comparisons on them may go either way; struct float conversions and NaN/inf classification are exact. Sound for totality: every concrete run is covered by some abstract path; a counterexample from the abstraction is replayed and only counted if it reproduces",
    "text decoding (latin_1/ascii with errors=replace) yields opaque placeholder strings",
]
EXPLANATION = "C07: every from_knx (validate_payload, struct unpacking, enum and bit-field decoding, date/time validation) runs on symbolic payloads; any path ending in an exception other than CouldNotParseTelegram/ConversionError is reported."
INTERESTING = ["decoded", "rejected"]
REQUIRED_REACH = ["decoded", "rejected", "consumer-ok"]
ABSTRACT_SIGS = ("undeclared:",)


def jobs(tier, seed):
    from props.dpt_common import all_classes, chunks
    names = [c.__name__ for c in all_classes()]
    heavy = {"DPTDateTime": (6, 0x1E)}          # split the declared-length case on the validity flags (path count is exponential in them)
    solo = ["DPTLatin1", "DPTString"]          # 2^14 paths each (which octets are NUL): own jobs, scheduled first
    out = [dict(name=f"classes-{i}", classes=ch, maxlen=16 if tier == "quick" else 20, cost=len(ch)) for i, ch in enumerate(chunks([n for n in names if n not in heavy and n not in solo], 6))]
    out += [dict(name=f"solo-{n}", classes=[n], maxlen=16 if tier == "quick" else 20, cost=1000) for n in solo if n in names]
    for n, (idx, mask) in heavy.items():
        out.append(dict(name=f"{n}-other-lengths", classes=[n], maxlen=16 if tier == "quick" else 20, skip_declared=True, cost=5))
        vals = sorted({v & mask for v in range(256)})
        for v in vals:
            out.append(dict(name=f"{n}-flags{v:02x}", classes=[n], maxlen=16, only_declared=True, assume=(idx, mask, v), cost=30))
    return out


def run_job(job, rep):
    import types
    from symx import core, fp
    from vx.harness import trace_functions
    from vx.util import exc_site
    from props.dpt_common import class_by_name, mk_payload, payload_json
    from xknx.dpt import DPTArray, DPTBinary
    from xknx.exceptions import ConversionError, CouldNotParseTelegram
    import xknx.core.group_address_dpt as gad
    from xknx.telegram import GroupAddress, Telegram
    from xknx.telegram.apci import GroupValueWrite

    fp.MODE["mode"] = "havoc"
    for name in job["classes"]:
        cls = class_by_name(name)
        variants = [("binary", None)]
        top = min(job["maxlen"], (cls.payload_length if cls.payload_type is DPTArray else 1) + 2)
        variants += [("array", n) for n in range(0, top + 1)]
        if job.get("only_declared"):
            variants = [("array", cls.payload_length)]
        if job.get("skip_declared"):
            variants = [v for v in variants if v != ("array", cls.payload_length)]
        for kind, n in variants:
            for consumer in ((False, True) if (kind == "array" and cls.payload_type is DPTArray and n == cls.payload_length) or (kind == "binary" and cls.payload_type is DPTBinary) else (False,)):
                def run(c):
                    p = DPTBinary(c.fresh_int("v", 0, 63)) if kind == "binary" else DPTArray(tuple(c.fresh_int(f"b{i}", 0, 255) for i in range(n)))
                    c.notes["p"] = p
                    if job.get("assume"):
                        idx, mask, val = job["assume"]
                        c.add((p.value[idx] & mask) == val)
                    if consumer:
                        g = gad.GroupAddressDPT.__new__(gad.GroupAddressDPT)
                        g._ga_dpts = {GroupAddress(0x0801): cls}
                        g.ga_decoding_error = set()
                        gad._GA_DPT_LOGGER = types.SimpleNamespace(debug=lambda *a: None, warning=lambda *a: None)
                        tg = Telegram(destination_address=GroupAddress(0x0801), payload=GroupValueWrite(p))
                        g.set_decoded_data(tg)
                        return ("consumer", tg.decoded_data)
                    f = lambda: cls.from_knx(p)
                    return ("value", trace_functions(f, rep) if len(rep.functions) < 300 and kind != "x" and not rep.extra.get(name) else f())

                def judge(pr):
                    c = pr.ctx
                    if pr.kind == "unsupported":
                        rep.inconcl(f"{name} {kind} {n}: {pr.value}"); return
                    m = c.current_model()
                    case = dict(cls=name, payload=payload_json(core, m, c.notes["p"]), consumer=consumer)
                    if pr.kind == "timeout":
                        rep.violation(f"hang:{name}", case, "decoding did not terminate"); return
                    if pr.kind == "raise":
                        e = pr.value
                        if not consumer and isinstance(e, (ConversionError, CouldNotParseTelegram)):
                            rep.reach["rejected"] += 1
                            rep.obligations += 1; rep.discharged += 1
                            return
                        rep.ob("refuted", f"undeclared:{name}:{type(e).__name__}" + (":consumer" if consumer else ""), case, repr(e)); return
                    rep.reach["consumer-ok" if consumer else "decoded"] += 1
                    rep.obligations += 1; rep.discharged += 1
                    rep.sample(dict(cls=name, witness=case["payload"]), limit=1)
                rep.extra[name] = True
                _, st = core.explore(run, on_path=judge, stop=rep.enough, timeout=120, path_timeout=20)
                rep.add_stats(st)


def replay(case):
    from props.dpt_common import class_by_name, payload_from_json
    from xknx.exceptions import ConversionError, CouldNotParseTelegram
    cls = class_by_name(case["cls"])
    p = payload_from_json(case["payload"])
    if case.get("consumer"):
        from xknx import XKNX
        from xknx.telegram import GroupAddress, Telegram
        from xknx.telegram.apci import GroupValueWrite
        xk = XKNX()
        xk.group_address_dpt.set({"1/0/1": cls})
        try:
            xk.group_address_dpt.set_decoded_data(Telegram(destination_address=GroupAddress("1/0/1"), payload=GroupValueWrite(p)))
        except Exception as e:  # noqa: BLE001
            return True, f"set_decoded_data raised {e!r} for {cls.__name__} payload {p!r}"
        return False, "ok"
    try:
        cls.from_knx(p)
    except (ConversionError, CouldNotParseTelegram):
        return False, "declared"
    except Exception as e:  # noqa: BLE001
        return True, f"{cls.__name__}.from_knx({p!r}) raised {type(e).__name__}: {e}"
    return False, "ok"
