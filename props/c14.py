"""C14 Received link frames reach exactly the right consumer, once."""
from __future__ import annotations

ID = "C14"
BOUNDS = {
    "quick": "(A) any received cEMI frame of 0..10 fully symbolic octets (no cut) and 11..14 octets (APDU restricted to three representative families, as in C12) through CEMIHandler.handle_raw_cemi with a symbolic own individual address; (B) CEMIHandler.send_telegram as one coroutine against every environment schedule of: a stale confirmation set before the send, hand-over outcome {ok, CommunicationError, ConversionError}, confirmation arriving during the hand-over, confirmation arriving during the wait, or never",
    "thorough": "(A) 0..11 octets without cut, 12..20 with the family restriction; (B) as quick",
}
OUTSIDE = "several sends running concurrently and confirmations interleaved at arbitrary loop iterations (one coroutine is driven; the event loop is not emulated); Data Secure handling (C18)"
ASSUMPTIONS = [
    "xknx.telegrams, management, telegram_queue, connection_manager, knxip_interface are recorders; asyncio.Event/asyncio.timeout inside xknx.cemi.cemi_handler are environment stubs: wait() either finds the flag set, or the environment delivers a confirmation frame through handle_cemi_frame, or raises TimeoutError as asyncio.timeout(3) would",
    "'group-addressed data frame' = T_Data_Group; broadcast and tag-group frames go to management",
]
EXPLANATION = ("C14: handle_raw_cemi -> handle_cemi_frame -> telegram_received and the send_telegram coroutine run symbolically; z3 decides per path that the recorder "
               "that fired is the one the frame's message code / address type / TPCI / destination demand, exactly once.")
INTERESTING = ["to-queue", "to-management", "confirmation", "ignored", "send-ok", "send-confirmation-error", "send-error"]
REQUIRED_REACH = ["to-queue", "to-management", "confirmation", "ignored", "send-ok", "send-confirmation-error", "send-error"]


def jobs(tier, seed):
    full, top = (10, 14) if tier == "quick" else (11, 20)
    out = []
    for L in range(0, top + 1):
        out.append(dict(name=f"recv-{'full' if L <= full else 'fam'}-L{L}", kind="recv", L=L, full=L <= full, cost=(L * 30 if L <= full else L)))
    out.append(dict(name="send", kind="send", cost=5))
    return out


def run_job(job, rep):
    import types
    import z3
    from symx import core, aio
    from vx.harness import trace_functions
    from vx.util import exc_site
    import props.c12 as c12
    import xknx.cemi.cemi_frame as cf
    import xknx.cemi.cemi_handler as ch
    import xknx.telegram.tpci as tp
    import xknx.telegram.apci as apci
    from xknx.cemi.const import CEMIMessageCode
    from xknx.dpt import DPTBinary
    from xknx.exceptions import CouldNotParseCEMI, UnsupportedCEMIMessage, ConfirmationError, CommunicationError, ConversionError
    from xknx.telegram import GroupAddress, IndividualAddress, Telegram

    if job["kind"] == "recv":
        L = job["L"]
        if not job["full"]:
            c12.validate_families()
            c12.install_family_cut(cf, None)

        def run(c):
            raw = c.fresh_bytes("b", L)
            own = c.fresh_int("own", 0, 65535)
            rec = []
            h, xk = c12.make_handler(rec)
            xk.current_address = IndividualAddress(own)
            c.notes.update(raw=raw, own=own)
            try:
                frame = cf.CEMIFrame.from_knx(raw)
            except (CouldNotParseCEMI, UnsupportedCEMIMessage):
                frame = None
            f = lambda: h.handle_raw_cemi(raw)
            trace_functions(f, rep) if not rep.functions else f()
            return frame, rec

        def judge(pr):
            c = pr.ctx
            if pr.kind in ("unsupported", "timeout"):
                rep.inconcl(f"{job['name']}: {pr.value}"); return
            raw, own = c.notes["raw"], c.notes["own"]
            m = c.current_model()
            mcase = lambda mm: dict(kind="recv", raw=raw.concrete(mm).hex(), own=core.model_val(mm, own))
            case = mcase(m)
            if pr.kind == "raise":
                rep.ob("refuted", "handler-raises:" + exc_site(pr.value), case, repr(pr.value)); return
            frame, rec = pr.value
            kinds = [e[0] for e in rec]
            q, mg, cf_ = kinds.count("queue"), kinds.count("management"), kinds.count("confirm")
            exp = "ignored"
            cond = True
            if frame is not None and isinstance(frame.data, cf.CEMILData):
                d = frame.data
                if frame.code is CEMIMessageCode.L_DATA_CON:
                    exp = "confirmation"
                elif frame.code is CEMIMessageCode.L_DATA_IND:
                    if isinstance(d.tpci, tp.TDataGroup):
                        exp = "to-queue"
                    elif isinstance(d.dst_addr, GroupAddress):
                        exp = "to-management"
                    else:
                        exp = "to-management-if-own"
                        cond = d.dst_addr.raw == own
            got = "to-queue" if q else ("to-management" if mg else ("confirmation" if cf_ else "ignored"))
            rep.reach[got] += 1
            once = (q + mg + cf_) <= 1
            if exp == "to-management-if-own":
                ok = core.sym_and(once, core.sym_or(core.sym_and(cond, got == "to-management"), core.sym_and(core.sym_not(cond), got == "ignored")))
            else:
                ok = core.sym_and(once, got == exp)
            st, mm = c.prove(ok)
            rep.ob(st, f"misrouted:{exp}->{got}", mcase(mm) if mm is not None else case, f"frame expected {exp}, recorders fired: {kinds}")
            rep.sample(dict(L=L, witness=case, routed=got), limit=1)

        _, st = core.explore(run, on_path=judge, stop=rep.enough, timeout=2400)
        rep.add_stats(st)
        return

    # ---- send_telegram against the environment
    def run(c):
        rec = []
        h, xk = c12.make_handler(rec)
        xk.current_address = IndividualAddress(0x1101)
        events = []
        env = dict(stale=c.fresh_bool("stale_confirmation_before_send"),
                   handover=core.concretize(c.fresh_int("handover", 0, 2)),        # 0 ok, 1 CommunicationError, 2 ConversionError
                   con_during_handover=c.fresh_bool("confirmation_during_handover"),
                   con_during_wait=c.fresh_bool("confirmation_during_wait"))
        con_frame = cf.CEMIFrame(code=CEMIMessageCode.L_DATA_CON, data=cf.CEMILData(src_addr=IndividualAddress(0x1101), dst_addr=GroupAddress(0x0801), tpci=tp.TDataGroup(),
                                                                                      payload=apci.GroupValueWrite(DPTBinary(1))))

        class Event:
            def __init__(self):
                self.flag = False

            def set(self):
                self.flag = True
                events.append("set")

            def clear(self):
                self.flag = False
                events.append("clear")

            def is_set(self):
                return self.flag

            def wait(self):
                def hook():
                    events.append("wait")
                    if self.flag:
                        return
                    if env["con_during_wait"]:
                        events.append("env:confirmation-during-wait")
                        h.handle_cemi_frame(con_frame)
                        return
                    raise TimeoutError()
                return aio.Ready(value=True, hook=hook)
        timeouts = []

        class Timeout:
            def __init__(self, d):
                timeouts.append(d)

            async def __aenter__(self):
                return self

            async def __aexit__(self, *a):
                return False
        ch.asyncio = aio.asyncio_shim(events, extra=dict(Event=Event, timeout=Timeout))
        ev = Event()
        h._l_data_confirmation_event = ev
        if env["stale"]:
            events.append("env:stale-confirmation")
            h.handle_cemi_frame(con_frame)
        sent = []

        async def send_cemi(cemi):
            sent.append(cemi)
            events.append("handover")
            if env["handover"] == 1:
                raise CommunicationError("link down")
            if env["handover"] == 2:
                raise ConversionError("cannot serialise")
            if env["con_during_handover"]:
                events.append("env:confirmation-during-handover")
                h.handle_cemi_frame(con_frame)
        xk.knxip_interface = types.SimpleNamespace(send_cemi=send_cemi)
        tg = Telegram(destination_address=GroupAddress(0x0801), payload=apci.GroupValueWrite(DPTBinary(1)))
        c.notes["env"] = env
        f = lambda: aio.drive(h.send_telegram(tg))
        try:
            res = trace_functions(f, rep) if not rep.functions else f()
            out = ("returned",)
        except (ConfirmationError, CommunicationError, ConversionError) as e:
            out = ("raised", type(e).__name__)
        return out, events, timeouts, xk.connection_manager.cemi_count_outgoing, xk.connection_manager.cemi_count_outgoing_error, len(sent)

    def judge(pr):
        c = pr.ctx
        env = c.notes.get("env", {})
        m = c.current_model()
        mcase = lambda mm: dict(kind="send", **{k: core.model_val(mm, v) for k, v in env.items()})
        case = mcase(m)
        if pr.kind != "ok":
            rep.ob("refuted", "send-raises:" + (exc_site(pr.value) if pr.kind == "raise" else pr.kind), case, repr(pr.value)); return
        out, events, timeouts, n_ok, n_err, n_sent = pr.value
        fresh = core.sym_or(env["con_during_handover"], env["con_during_wait"])
        if env["handover"] != 0:
            rep.reach["send-error"] += 1
            exp_exc = "CommunicationError" if env["handover"] == 1 else "ConversionError"
            ok = core.sym_and(out == ("raised", exp_exc), n_err == 1, n_ok == 0, n_sent == 1)
        elif out == ("returned",):
            rep.reach["send-ok"] += 1
            # completes only on a confirmation that arrived after the frame was handed to the interface
            ok = core.sym_and(fresh, n_ok == 1, n_err == 0, n_sent == 1)
        else:
            rep.reach["send-confirmation-error"] += 1
            ok = core.sym_and(out == ("raised", "ConfirmationError"), core.sym_not(fresh), n_err == 1, n_ok == 0, timeouts == [3])
        st, mm = c.prove(ok)
        rep.ob(st, f"send-completion:{out}", mcase(mm) if mm is not None else case, f"send_telegram outcome {out} with events {events}, timeouts {timeouts}")
        rep.sample(dict(env=case, outcome=out, events=events), limit=4)

    _, st = core.explore(run, on_path=judge, stop=rep.enough, timeout=300)
    rep.add_stats(st)


def replay(case):
    import asyncio
    from unittest.mock import Mock
    from xknx import XKNX
    import xknx.cemi.cemi_frame as cf
    import xknx.telegram.tpci as tp
    import xknx.telegram.apci as apci
    from xknx.cemi.const import CEMIMessageCode
    from xknx.dpt import DPTBinary
    from xknx.exceptions import CouldNotParseCEMI, UnsupportedCEMIMessage, ConfirmationError, CommunicationError, ConversionError
    from xknx.telegram import GroupAddress, IndividualAddress, Telegram

    async def go():
        xk = XKNX()
        queued, mgmt = [], []
        xk.telegrams = Mock()
        xk.telegrams.put_nowait = queued.append
        xk.management = Mock()
        xk.management.process = mgmt.append
        h = xk.cemi_handler
        if case["kind"] == "recv":
            xk.current_address = IndividualAddress(case["own"])
            raw = bytes.fromhex(case["raw"])
            try:
                frame = cf.CEMIFrame.from_knx(raw)
            except (CouldNotParseCEMI, UnsupportedCEMIMessage):
                frame = None
            h._l_data_confirmation_event.clear()
            try:
                h.handle_raw_cemi(raw)
            except Exception as e:  # noqa: BLE001
                return True, f"handle_raw_cemi raised {e!r}"
            con = h._l_data_confirmation_event.is_set()
            exp = "ignored"
            if frame is not None and isinstance(frame.data, cf.CEMILData):
                d = frame.data
                if frame.code is CEMIMessageCode.L_DATA_CON:
                    exp = "confirmation"
                elif frame.code is CEMIMessageCode.L_DATA_IND:
                    if isinstance(d.tpci, tp.TDataGroup):
                        exp = "to-queue"
                    elif isinstance(d.dst_addr, GroupAddress) or d.dst_addr == xk.current_address:
                        exp = "to-management"
            got = "to-queue" if queued else ("to-management" if mgmt else ("confirmation" if con else "ignored"))
            if got != exp or len(queued) + len(mgmt) + int(con) > 1:
                return True, f"frame {raw.hex()} (own {xk.current_address}): expected {exp}, got {got} (queue {len(queued)}, management {len(mgmt)}, confirmation {con})"
            return False, "ok"
        con_frame = cf.CEMIFrame(code=CEMIMessageCode.L_DATA_CON, data=cf.CEMILData(src_addr=IndividualAddress(0x1101), dst_addr=GroupAddress(0x0801), tpci=tp.TDataGroup(), payload=apci.GroupValueWrite(DPTBinary(1))))
        import xknx.cemi.cemi_handler as ch
        ch.REQUEST_TO_CONFIRMATION_TIMEOUT_ORIG = ch.REQUEST_TO_CONFIRMATION_TIMEOUT
        if case["stale"]:
            h.handle_cemi_frame(con_frame)
        loop = asyncio.get_running_loop()

        async def send_cemi(cemi):
            if case["handover"] == 1:
                raise CommunicationError("link down")
            if case["handover"] == 2:
                raise ConversionError("cannot serialise")
            if case["con_during_handover"]:
                h.handle_cemi_frame(con_frame)
            elif case["con_during_wait"]:
                loop.call_later(0.05, h.handle_cemi_frame, con_frame)
        xk.knxip_interface = Mock()
        xk.knxip_interface.send_cemi = send_cemi
        from unittest.mock import patch
        with patch.object(ch, "REQUEST_TO_CONFIRMATION_TIMEOUT", 0.3):
            try:
                await h.send_telegram(Telegram(destination_address=GroupAddress(0x0801), payload=apci.GroupValueWrite(DPTBinary(1))))
                out = "returned"
            except (ConfirmationError, CommunicationError, ConversionError) as e:
                out = type(e).__name__
        fresh = case["con_during_handover"] or case["con_during_wait"]
        exp = {1: "CommunicationError", 2: "ConversionError"}.get(case["handover"], "returned" if fresh else "ConfirmationError")
        if out != exp:
            return True, f"send_telegram {out}, expected {exp} for environment {case}"
        return False, "ok"
    return asyncio.run(go())
