"""Import hook: compiles every xknx.* module from /repo's *current* source with two mechanical AST rewrites and
binds symbolic-aware shims into the module globals after execution.  No file in /repo is modified.

Rewrites (semantics-preserving on concrete values, checked by selfcheck.py):
  not e                -> _symx_not_(e)
  a in b / a not in b  -> _symx_in_(a, b) / _symx_not_(_symx_in_(a, b))
  <bytes const>.join(x)-> _symx_join_(<bytes const>, x)
"""
from __future__ import annotations

import ast
import importlib.abc
import importlib.machinery
import importlib.util
import os
import sys

from . import core, shims

REPO = os.environ.get("VERIF_REPO", "/repo")
PREFIX = "xknx"
loaded_sources = {}


class _Rewriter(ast.NodeTransformer):
    def visit_UnaryOp(self, node):
        self.generic_visit(node)
        if isinstance(node.op, ast.Not):
            return ast.copy_location(
                ast.Call(func=ast.Name(id="_symx_not_", ctx=ast.Load()), args=[node.operand], keywords=[]), node)
        return node

    def visit_Compare(self, node):
        self.generic_visit(node)
        if len(node.ops) == 1 and isinstance(node.ops[0], (ast.In, ast.NotIn)):
            call = ast.Call(func=ast.Name(id="_symx_in_", ctx=ast.Load()), args=[node.left, node.comparators[0]],
                            keywords=[])
            if isinstance(node.ops[0], ast.NotIn):
                call = ast.Call(func=ast.Name(id="_symx_not_", ctx=ast.Load()), args=[call], keywords=[])
            return ast.copy_location(call, node)
        return node

    def visit_Call(self, node):
        self.generic_visit(node)
        f = node.func
        if (isinstance(f, ast.Attribute) and f.attr == "join" and isinstance(f.value, ast.Constant)
                and isinstance(f.value.value, bytes) and len(node.args) == 1 and not node.keywords):
            return ast.copy_location(
                ast.Call(func=ast.Name(id="_symx_join_", ctx=ast.Load()), args=[f.value, node.args[0]], keywords=[]),
                node)
        return node


def rewrite_source(source, filename):
    tree = ast.parse(source, filename)
    tree = _Rewriter().visit(tree)
    ast.fix_missing_locations(tree)
    return compile(tree, filename, "exec", dont_inherit=True)


class _Loader(importlib.machinery.SourceFileLoader):
    def source_to_code(self, data, path, *, _optimize=-1):
        loaded_sources[path] = len(data)
        return rewrite_source(data, path)

    def get_code(self, fullname):
        # never use / write .pyc: the encoding must be regenerated from the current source on every run
        path = self.get_filename(fullname)
        return self.source_to_code(self.get_data(path), path)

    def exec_module(self, module):
        d = module.__dict__
        d["_symx_not_"] = core.sym_not
        d["_symx_in_"] = core.sym_in
        d["_symx_join_"] = shims.sym_join
        super().exec_module(module)
        inject(module)


def inject(module):
    d = module.__dict__
    for k, v in shims.SHIMS.items():
        # do not shadow a module-level definition of the same name (none in xknx today, but be safe)
        if k in d and getattr(d[k], "__module__", None) == module.__name__:
            continue
        d[k] = v
    if "struct" in d:
        d["struct"] = shims.struct_shim
    if "socket" in d:
        d["socket"] = shims.socket_shim()
    from . import fp as _fp
    if d.get("log10") is __import__("math").log10:
        d["log10"] = _fp.math_log10
    if d.get("ceil") is __import__("math").ceil:
        d["ceil"] = _fp.math_ceil
    if module.__name__ == "xknx.telegram.address":
        # BaseAddress.__hash__ is hash((cls, raw)): hash by class only, so that symbolic and concrete addresses agree
        # (equal objects still hash equal; dicts/sets fall back on __eq__, which forks symbolically on raw equality)
        d["hash"] = shims.address_hash_shim


class _Finder(importlib.abc.MetaPathFinder):
    def find_spec(self, fullname, path, target=None):
        if fullname != PREFIX and not fullname.startswith(PREFIX + "."):
            return None
        spec = importlib.machinery.PathFinder.find_spec(fullname, path)
        if spec is None or not isinstance(spec.loader, importlib.machinery.SourceFileLoader):
            return spec
        origin = os.path.realpath(spec.origin)
        if not origin.startswith(os.path.realpath(REPO) + os.sep):
            raise ImportError(f"xknx resolved outside {REPO}: {origin}")
        spec.loader = _Loader(spec.loader.name, spec.loader.path)
        return spec


_installed = False


def install():
    global _installed
    if _installed:
        return
    if any(m == PREFIX or m.startswith(PREFIX + ".") for m in sys.modules):
        raise RuntimeError("xknx imported before symx.loader.install()")
    sys.dont_write_bytecode = True
    if REPO not in sys.path:
        sys.path.insert(0, REPO)
    sys.meta_path.insert(0, _Finder())
    _installed = True
