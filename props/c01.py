"""C01 Addresses survive text and wire round trips in every notation."""
from __future__ import annotations

ID = "C01"
ENGINE = "symx+crosshair"
TECHNIQUE = "symbolic execution of the real Python code (symx proxy objects + real regex on digit-length classes) + z3; CrossHair (z3) for arbitrary str inputs"
BOUNDS = {
    "quick": "complete for (a)-(c): raw 0..65535 symbolic x {IndividualAddress, GroupAddress} x {LONG, SHORT, FREE}; ints in [-2^33, 2^33] and their decimal text (digit-only strings) for 0..2^33; (d) arbitrary text: CrossHair over str with len <= 4, 40 s per condition, 4 constructors; non-str objects: 7 concrete type classes",
    "thorough": "as quick with (d) len <= 6 and 240 s per condition",
}
OUTSIDE = "strings longer than the (d) bound (e.g. digit strings beyond CPython's 4300-digit int limit); bool arguments (accepted as ints by design); CrossHair 'not confirmed' cells are inconclusive, never counted as held"
ASSUMPTIONS = [
    "(a): str(address) is real text whose numbers are placeholders for symbolic ints; the live ADDRESS_RE patterns are run for real on representatives of each digit-length class (symx.symre)",
    "(d): CrossHair's model of str/Unicode and of the re module",
]
EXPLANATION = ("C01: address constructors, properties, __str__, to_knx/from_knx run on a symbolic raw value; the rendered text is parsed back by the real code; "
               "arbitrary text is explored by CrossHair on the unmodified module.")
INTERESTING = ["text-roundtrip", "wire-roundtrip", "rejected-int", "crosshair-confirmed", "nonstr-rejected"]
REQUIRED_REACH = ["text-roundtrip", "wire-roundtrip", "rejected-int", "nonstr-rejected"]
ABSTRACT_SIGS = ()


def jobs(tier, seed):
    out = []
    for cls in ("IndividualAddress", "GroupAddress"):
        for fmt in (("LONG", "SHORT", "FREE") if cls == "GroupAddress" else ("-",)):
            out.append(dict(name=f"text-{cls}-{fmt}", kind="text", cls=cls, fmt=fmt))
        out.append(dict(name=f"wire-{cls}", kind="wire", cls=cls))
        out.append(dict(name=f"int-{cls}", kind="int", cls=cls))
        out.append(dict(name=f"digits-{cls}", kind="digits", cls=cls))
    out.append(dict(name="nonstr", kind="nonstr"))
    for fn in ("group_text", "individual_text", "internal_text", "device_text"):
        out.append(dict(name=f"crosshair-{fn}", kind="crosshair", fn=fn, maxlen=4 if tier == "quick" else 6,
                        timeout=40 if tier == "quick" else 240, cost=100))
    return out


def run_job(job, rep):
    from symx import core, symre
    from vx.harness import trace_functions
    from vx.util import exc_site
    import xknx.telegram.address as ad
    from xknx.exceptions import CouldNotParseAddress

    kind = job["kind"]
    if kind == "crosshair":
        return run_crosshair(job, rep)
    if kind == "nonstr":
        for cls in (ad.GroupAddress, ad.IndividualAddress, ad.InternalGroupAddress, ad.parse_device_group_address):
            for val in (None, 1.5, b"1/2/3", [1, 2, 3], (1, 2), {"a": 1}, object()):
                rep.obligations += 1
                try:
                    cls(val)
                    rep.violation(f"nonstr-accepted:{getattr(cls, '__name__', cls)}:{type(val).__name__}", dict(kind="nonstr", cls=getattr(cls, "__name__"), val=repr(val)), "accepted")
                except CouldNotParseAddress:
                    rep.discharged += 1
                    rep.reach["nonstr-rejected"] += 1
                except Exception as e:  # noqa: BLE001
                    rep.violation(f"nonstr-raises:{getattr(cls, '__name__', cls)}:{type(val).__name__}:{type(e).__name__}", dict(kind="nonstr", cls=getattr(cls, "__name__"), val=repr(val)), repr(e))
        rep.stats["paths"] += 28
        rep.sample(dict(kind="nonstr", values=["None", "1.5", "b'1/2/3'", "[1,2,3]", "(1,2)", "{'a':1}", "object()"]))
        return

    cls = getattr(ad, job["cls"])
    for k in (ad.GroupAddress, ad.IndividualAddress):
        if not isinstance(k.ADDRESS_RE, symre.SymPattern):
            k.ADDRESS_RE = symre.SymPattern(k.ADDRESS_RE)
    if job.get("fmt", "-") != "-":
        ad.GroupAddress.address_format = ad.GroupAddressType[job["fmt"]]

    def run(c):
        if kind == "int":
            raw = c.fresh_int("raw", -(1 << 33), 1 << 33)
        elif kind == "digits":
            raw = c.fresh_int("raw", 0, 1 << 33)
            c.notes["raw"] = raw
            return cls(str(raw))           # digit-only text: str.isdigit() path of the constructors
        else:
            raw = c.fresh_int("raw", 0, 65535)
        c.notes["raw"] = raw
        if kind == "text":
            a = cls(raw)
            txt = str(a)
            f = lambda: cls(txt)
            b = trace_functions(f, rep) if not rep.functions else f()
            return a, txt, b
        if kind == "wire":
            a = cls(raw)
            w = a.to_knx()
            return a, w, cls.from_knx(w)
        return cls(raw)

    def judge(pr):
        c = pr.ctx
        raw = c.notes["raw"]
        if pr.kind in ("unsupported", "timeout"):
            rep.inconcl(f"{job['name']}: {pr.value}"); return
        m = c.current_model()
        case = dict(kind=kind, cls=job["cls"], fmt=job.get("fmt", "-"), raw=core.model_val(m, raw))

        def mc(mm):
            return case if mm is None else dict(case, raw=core.model_val(mm, raw))
        if kind in ("int", "digits"):
            inr = core.sym_and(raw >= 0, raw <= 65535)
            if pr.kind == "raise":
                if isinstance(pr.value, CouldNotParseAddress):
                    rep.reach["rejected-int"] += 1
                    st, mm = c.prove(core.sym_not(inr))
                    rep.ob(st, "in-range-int-rejected", mc(mm), "in-range int rejected")
                else:
                    rep.ob("refuted", "int-raises:" + exc_site(pr.value), case, repr(pr.value))
            else:
                st, mm = c.prove(core.sym_and(inr, pr.value.raw == raw))
                rep.ob(st, "out-of-range-int-accepted", mc(mm), "int outside 0..65535 accepted (or accepted with another value)")
            return
        if pr.kind == "raise":
            rep.ob("refuted", f"{kind}-roundtrip-raises:{exc_site(pr.value)}", case, repr(pr.value)); return
        a, mid, b = pr.value
        rep.reach[f"{kind}-roundtrip"] += 1
        conds = [b.raw == a.raw, type(b) is type(a)]
        if kind == "wire":
            conds.append(len(mid) == 2)
        st, mm = c.prove(core.sym_and(*conds))
        rep.ob(st, f"{kind}-roundtrip-differs", mc(mm), f"{kind} round trip changes the address")
        rep.sample(dict(case=case, rendered=str(mid) if kind == "text" else None), limit=1)

    _, st = core.explore(run, on_path=judge, stop=rep.enough, timeout=600)
    rep.add_stats(st)


def run_crosshair(job, rep):
    import os, re, subprocess, tempfile, time
    root = os.path.dirname(os.path.dirname(os.path.abspath(__file__)))
    src = open(os.path.join(root, "props", "c01_crosshair_target.py")).read().replace("len(s) <= 4", f"len(s) <= {job['maxlen']}")
    with tempfile.TemporaryDirectory(prefix="vxch") as td:
        p = os.path.join(td, "c01_target.py")
        open(p, "w").write(src)
        line = next(i + 1 for i, l in enumerate(src.splitlines()) if l.startswith(f"def {job['fn']}("))
        env = dict(os.environ, PYTHONPATH=os.environ.get("VERIF_REPO", "/repo"), PYTHONDONTWRITEBYTECODE="1")
        env.pop("VERIF_REPO", None)
        t0 = time.time()
        pr = subprocess.run([os.path.join(root, ".venv", "bin", "python"), "-m", "crosshair", "check", "--report_all",
                             "--per_condition_timeout", str(job["timeout"]), f"{p}:{line}"],
                            capture_output=True, text=True, env=env, cwd=td, timeout=job["timeout"] * 3 + 120)
        out = pr.stdout + pr.stderr
    rep.stats["paths"] += 1
    rep.stats["solver_ms"] += int((time.time() - t0) * 1000)
    rep.obligations += 1
    rep.extra["crosshair_output"] = out[-600:]
    m = re.search(r"error: false when calling \w+\((.*?)\) \(which returns", out) or re.search(r"error: false when calling \w+\((.*)\)\s*$", out, re.M)
    if m:
        arg = m.group(1)
        try:
            s = eval(arg.split("=", 1)[1] if "=" in arg else arg, {})  # noqa: S307 - crosshair prints a Python literal
        except Exception:  # noqa: BLE001
            rep.inconcl(f"crosshair counterexample not parseable: {arg}"); return
        rep.violation(f"text:{job['fn']}:{[hex(ord(ch)) for ch in s][:6]}", dict(kind="crosshair", fn=job["fn"], s=s), out[-300:])
        return
    if "Confirmed over all paths" in out:
        rep.discharged += 1
        rep.reach["crosshair-confirmed"] += 1
        rep.sample(dict(kind="crosshair", fn=job["fn"], maxlen=job["maxlen"], verdict="Confirmed over all paths"))
    else:
        rep.reach["crosshair-not-confirmed"] += 1
        rep.inconcl(f"crosshair {job['fn']} len<={job['maxlen']}: {out.strip().splitlines()[-1][:200] if out.strip() else 'no output'}")
        rep.sample(dict(kind="crosshair", fn=job["fn"], maxlen=job["maxlen"], verdict="not confirmed within the time budget (inconclusive)"))


def replay(case):
    import xknx.telegram.address as ad
    from xknx.exceptions import CouldNotParseAddress
    if case["kind"] == "crosshair":
        import importlib
        t = importlib.import_module("props.c01_crosshair_target")
        ok = getattr(t, case["fn"])(case["s"])
        return (not ok), f"{case['fn']}({case['s']!r}) -> {ok}"
    if case["kind"] == "nonstr":
        return True, "non-str object mishandled: " + str(case)
    cls = getattr(ad, case["cls"])
    if case.get("fmt", "-") != "-":
        ad.GroupAddress.address_format = ad.GroupAddressType[case["fmt"]]
    raw = case["raw"]
    if case["kind"] in ("int", "digits"):
        try:
            cls(raw if case["kind"] == "int" else str(raw))
        except CouldNotParseAddress:
            return (0 <= raw <= 65535), "rejected"
        except Exception as e:  # noqa: BLE001
            return True, repr(e)
        return (not 0 <= raw <= 65535), "accepted"
    try:
        a = cls(raw)
        b = cls(str(a)) if case["kind"] == "text" else cls.from_knx(a.to_knx())
    except Exception as e:  # noqa: BLE001
        return True, f"{case}: {e!r}"
    if b != a or (case["kind"] == "wire" and len(a.to_knx()) != 2):
        return True, f"{a!r} -> {str(a) if case['kind'] == 'text' else a.to_knx().hex()} -> {b!r}"
    return False, "ok"
