#!/bin/bash
# usage: tools/try_seed2.sh <seed name> [extra check args]  -- like try_seed.sh but in a private scratch worktree (VERIF_REPO), /repo untouched
S=$1; shift
WT=/tmp/seedrepo_$$
git -C /repo worktree add -q --detach $WT HEAD || exit 2
trap 'git -C /repo worktree remove --force '$WT EXIT
git -C $WT apply /verif/seeded/$S/patch.diff || { echo NOAPPLY; exit 2; }
id=${S%%_*}
cd /verif && VERIF_REPO=$WT timeout ${SEED_TIMEOUT:-1500} ./check $id --tier ${TIER:-quick} --jobs ${JOBS:-6} "$@" 2>&1 | grep -E "^(C[0-9]+ tier|VIOLATION|HARNESS-ERROR|  sig=)" | cut -c1-400
