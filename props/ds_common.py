"""Shared pieces of the Data Secure harnesses (C15-C18)."""
from __future__ import annotations


def setup():
    from symx import crypto
    crypto.install()
    crypto.selfcheck()


def bv_add(ctr, k):
    from symx import crypto
    if all(isinstance(e, int) for e in ctr):
        return list(((int.from_bytes(bytes(ctr), "big") + k) % (1 << 128)).to_bytes(16, "big"))
    return crypto.from_bv(crypto.to_bv(ctr) + k)


def ref_verify(enc, key, seq6, sa2, da2, at_group, eff, tpci_octet, scf_octet, secured, mac4, encrypt):
    """Specification-side verification of a received secured APDU.  Returns (list of 4 (received, expected) MAC octet pairs, plain apdu)."""
    from spec import ccm_reference as ref
    if encrypt:
        ctr0 = list(seq6) + list(sa2) + list(da2) + [0, 0, 0, 0, 1, 0]
        stream, k = [], 0
        while len(stream) < 4 + len(secured):
            stream += enc(key, bv_add(ctr0, k) if k else ctr0)
            k += 1
        plain = ref.xor(list(secured), stream[4:4 + len(secured)])
        mac_plain = ref.xor(list(mac4), stream[:4])
    else:
        plain, mac_plain = list(secured), list(mac4)
    _, exp = ref.secure(lambda k_, b: enc(k_, b), bv_add, key, seq6, sa2, da2, at_group, eff, tpci_octet, scf_octet, plain, False) if not encrypt else (None, None)
    if encrypt:
        q = len(plain)
        b0 = list(seq6) + list(sa2) + list(da2) + [0, (0x80 if at_group else 0) | eff, tpci_octet | 0x03, 0xF1, 0, q]
        exp = ref.cbc_mac(enc, key, b0 + [0, 1, scf_octet] + plain)[:4]
    return list(zip(mac_plain, exp)), plain


def real_enc(key, block):
    from cryptography.hazmat.primitives.ciphers import Cipher, algorithms, modes
    e = Cipher(algorithms.AES(bytes(key)), modes.ECB()).encryptor()  # noqa: S305
    return list(e.update(bytes(block)) + e.finalize())


def make_handler(rec, data_secure, own=0x1101):
    """CEMIHandler with recorder stubs (same shape as in C12) and the given DataSecure instance."""
    import props.c12 as c12
    from xknx.telegram import IndividualAddress
    h, xk = c12.make_handler(rec)
    h.data_secure = data_secure
    xk.current_address = IndividualAddress(own)
    return h, xk
