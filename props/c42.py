"""C42 Timed resets and press counters behave as configured (partial)."""
from __future__ import annotations

ID = "C42"
BOUNDS = {
    "quick": "(a) BinarySensor.bump_and_get_counter and the path process_group_write -> _set_internal_state -> bump_and_get_counter as ONE step from an arbitrary counter state (both counters symbolic 0..20, last-set time unknown or a symbolic clock reading, clock readings t = 1000 + k*2^-10 s with k < 2^16 non-decreasing, context timeout 0.5 s and 2 s) against the reference counter; _counter_task resets both counters; (b) reset timers: BinarySensor and Switch with reset_after = k/10 s (k symbolic 0..100, and None), both invert settings, two consecutive GroupValueWrite/Response telegrams with symbolic 6-bit payloads: after each 'on' telegram exactly one reset timer is alive and it was created while that telegram was processed (earlier one cancelled), an 'off' or invalid telegram creates none; the real TaskRegistry.start_task/remove_task and Task.cancel run with asyncio.create_task replaced by an inert handle; (c) the reset task's own coroutine Task._start_internal is stepped with asyncio.sleep recorded: it sleeps exactly once for reset_after and then leaves the device 'off' (BinarySensor state False; Switch queues the 'off' telegram, which loops back to state off)",
    "thorough": "as quick with counters 0..1000 and k < 2^20",
}
OUTSIDE = "the event loop itself: that a sleeping asyncio task wakes after the requested delay, and interleavings of the reset task with incoming telegrams while it is suspended (only its creation, cancellation and its straight-line body are decided); context timeouts other than 0.5 s and 2 s; clock readings that are not multiples of 2^-10 s"
ASSUMPTIONS = [
    "reference counter (docstring of bump_and_get_counter): a telegram within context_timeout of the previous one increments the counter of its state, otherwise that counter restarts at 1 and the other one is cleared; the first telegram ever counts 1",
    "'off exactly reset_after after the last on' is decomposed into: every 'on' telegram cancels the pending timer and creates a new one (b), and the timer body waits reset_after once and then switches off (c)",
]
EXPLANATION = "C42: real BinarySensor/Switch/TaskRegistry/Task code on symbolic telegram payloads, counter states and clock readings; the timer is an inert handle, its coroutine body is stepped separately (symaio)."
INTERESTING = ["counter-step", "reset-armed", "reset-not-armed", "timer-body"]
REQUIRED_REACH = ["counter-step", "reset-armed", "reset-not-armed", "timer-body"]

TICK = 2.0 ** -10
TS = 1000.0
GA = "1/2/3"


def jobs(tier, seed):
    out = []
    for T in (0.5, 2.0):
        for via in ("direct", "telegram"):
            out.append(dict(name=f"counter-T{T}-{via}", kind="counter", T=T, via=via, tier=tier, cost=20))
    out.append(dict(name="counter-task", kind="counter-task", tier=tier, cost=1))
    for dev in ("BinarySensor", "Switch"):
        for inv in (False, True):
            for resp in (False, True):
                out.append(dict(name=f"reset-{dev}-invert{inv}-{'response' if resp else 'write'}", kind="reset", dev=dev, invert=inv, response=resp, tier=tier, cost=10))
            out.append(dict(name=f"timer-body-{dev}-invert{inv}", kind="body", dev=dev, invert=inv, tier=tier, cost=5))
    return out


def make_device(xk, dev, invert, reset_after, context_timeout=None):
    from xknx.devices import BinarySensor, Switch
    if dev == "BinarySensor":
        return BinarySensor(xk, "b", group_address_state=GA, invert=invert, reset_after=reset_after, context_timeout=context_timeout)
    return Switch(xk, "s", group_address=GA, invert=invert, reset_after=reset_after)


def telegram(payload_value, response=False, outgoing=False):
    from xknx.dpt import DPTBinary
    from xknx.telegram import GroupAddress, Telegram, TelegramDirection
    from xknx.telegram.apci import GroupValueResponse, GroupValueWrite
    p = DPTBinary(payload_value)
    return Telegram(destination_address=GroupAddress(GA), direction=TelegramDirection.OUTGOING if outgoing else TelegramDirection.INCOMING,
                    payload=(GroupValueResponse if response else GroupValueWrite)(p))


def install_asyncio(log):
    """asyncio seen by xknx.core.task_registry: inert tasks, recorded sleeps."""
    import asyncio as real
    from symx import aio
    import xknx.core.task_registry as trm
    trm.asyncio = aio.asyncio_shim(log, extra=dict(iscoroutine=real.iscoroutine))
    return trm


def run_job(job, rep):
    import types
    import z3
    from symx import aio, core, fp
    from vx.harness import trace_functions
    from vx.util import sym_eq
    from xknx import XKNX
    import xknx.devices.binary_sensor as bsm
    import xknx.remote_value.remote_value as rvmod

    fp.MODE["mode"] = "exact"
    core.QUERY_TIMEOUT_MS[0] = 40000
    rvmod.logger = types.SimpleNamespace(debug=lambda *a, **k: None, warning=lambda *a, **k: None, info=lambda *a, **k: None)
    quick = job["tier"] == "quick"
    DB = 16 if quick else 20
    CMAX = 20 if quick else 1000

    def tick_float(d):
        z = z3.fpAdd(fp.RNE, z3.FPVal(TS, fp.F64), z3.fpMul(fp.RNE, z3.fpSignedToFP(fp.RNE, z3.Extract(DB, 0, d.z), fp.F64), z3.FPVal(TICK, fp.F64)))
        return fp.SymFloat(z, (TS, TS + (1 << DB) * TICK))

    if job["kind"] == "counter":
        T = job["T"]
        Tticks = int(T / TICK)

        def run(c):
            log = []
            install_asyncio(log)
            xk = XKNX()
            dev = make_device(xk, "BinarySensor", False, None, context_timeout=T)
            on0 = c.fresh_int("on0", 0, CMAX)
            off0 = c.fresh_int("off0", 0, CMAX)
            has_last = c.fresh_bool("has_last")
            k_last = c.fresh_int("k_last", 0, (1 << DB) - 1)
            reads = []

            def now():
                k = c.fresh_int(f"k{len(reads)}", 0, (1 << DB) - 1)
                c.add(k >= (reads[-1] if reads else k_last))
                reads.append(k)
                return tick_float(k)
            bsm.time = types.SimpleNamespace(time=now)
            dev._count_set_on, dev._count_set_off = on0, off0
            if has_last:
                dev._last_set = tick_float(k_last)
                known = True
            else:
                dev._last_set = None
                known = False
            c.notes.update(on0=on0, off0=off0, known=known, k_last=k_last, reads=reads)
            if job["via"] == "direct":
                state = c.fresh_bool("state")
                c.notes["state"] = state
                f = lambda: dev.bump_and_get_counter(state)
                ret = trace_functions(f, rep) if not rep.functions else f()
            else:
                bit = c.fresh_int("payload", 0, 1)
                c.notes["state"] = bit == 1
                f = lambda: dev.process(telegram(bit))
                trace_functions(f, rep) if not rep.functions else f()
                ret = dev.counter
            return ret, dev._count_set_on, dev._count_set_off, dev._last_set, log, dev.state

        def judge(pr):
            c = pr.ctx
            if pr.kind in ("unsupported", "timeout"):
                rep.inconcl(f"{job['name']}: {pr.kind} {pr.value}"); return
            n = c.notes
            m = c.current_model()
            mcase = lambda mm: dict(kind="counter", T=T, via=job["via"], on0=core.model_val(mm, n["on0"]), off0=core.model_val(mm, n["off0"]),
                                    last=(TS + core.model_val(mm, n["k_last"]) * TICK) if n["known"] else None,
                                    reads=[TS + core.model_val(mm, r) * TICK for r in n["reads"]], state=bool(core.model_val(mm, n["state"])))
            case = mcase(m)
            if pr.kind == "raise":
                rep.ob("refuted", f"raises:counter:{type(pr.value).__name__}", case, repr(pr.value)); return
            ret, on1, off1, last1, log, dstate = pr.value
            rep.reach["counter-step"] += 1
            if len(n["reads"]) != 1:
                rep.ob("refuted", "counter-clock-reads", case, f"{len(n['reads'])} clock readings for one telegram"); return
            k_now = n["reads"][0]
            st_ = n["state"]
            within = core.sym_and(n["known"], (k_now - n["k_last"]) < Tticks)           # exact: readings are multiples of 2^-10 s
            exp_on = core.ite(within, core.ite(st_, n["on0"] + 1, n["on0"]), core.ite(st_, 1, 0))
            exp_off = core.ite(within, core.ite(st_, n["off0"], n["off0"] + 1), core.ite(st_, 0, 1))
            exp_ret = core.ite(st_, exp_on, exp_off)
            conds = [sym_eq(on1, exp_on), sym_eq(off1, exp_off), sym_eq(ret, exp_ret)]
            ok_last = isinstance(last1, fp.SymFloat) and core.mk_bool(z3.fpEQ(last1.z, tick_float(k_now).z))
            conds.append(ok_last)
            if job["via"] == "telegram":
                conds.append(sym_eq(dstate, st_))
                if ("create_task",) not in log:
                    rep.ob("refuted", "context-task-not-started", case, repr(log)); return
            st, mm = c.prove(core.sym_and(*conds))
            rep.ob(st, f"counter-differs:{job['via']}", mcase(mm) if mm is not None else case, "counter state after one telegram differs from the reference")
            rep.sample(dict(job=job["name"], witness=case), limit=1)
        _, st = core.explore(run, on_path=judge, stop=rep.enough, timeout=300, path_timeout=60)
        rep.add_stats(st)
        return

    if job["kind"] == "counter-task":
        def run(c):
            log = []
            install_asyncio(log)
            xk = XKNX()
            dev = make_device(xk, "BinarySensor", False, None, context_timeout=0.5)
            calls = []
            dev.register_device_updated_cb(lambda d: calls.append((d._count_set_on, d._count_set_off)))
            dev._count_set_on = c.fresh_int("on0", 0, CMAX)
            dev._count_set_off = c.fresh_int("off0", 0, CMAX)
            c.notes.update(on0=dev._count_set_on, off0=dev._count_set_off)
            aio.drive(dev._counter_task(0.5))
            return calls, dev._count_set_on, dev._count_set_off

        def judge(pr):
            c = pr.ctx
            case = dict(kind="counter-task")
            if pr.kind != "ok":
                rep.ob("refuted", f"raises:counter-task:{pr.kind}", case, repr(pr.value)); return
            calls, on1, off1 = pr.value
            rep.reach["counter-step"] += 1
            ok = len(calls) == 2 and on1 == 0 and off1 == 0 and calls[0][0] is c.notes["on0"] and calls[1] == (0, 0)
            rep.ob("proved" if ok else "refuted", "counter-task-reset", case, repr((calls, on1, off1)))
        _, st = core.explore(run, on_path=judge, timeout=30)
        rep.add_stats(st)
        return

    dev_name, invert = job["dev"], job["invert"]

    if job["kind"] == "reset":
        for use_reset in (True, False):
            def run(c):
                log = []
                install_asyncio(log)
                xk = XKNX()
                if use_reset:
                    k = c.fresh_int("reset_tenths", 0, 100)
                    reset_after = core.concretize(k) / 10 if False else k / 10
                else:
                    k, reset_after = None, None
                dev = make_device(xk, dev_name, invert, reset_after)
                ps, marks = [], []
                for i in range(2):
                    p = c.fresh_int(f"p{i}", 0, 63)
                    ps.append(p)
                    before = len(log)
                    f = lambda: dev.process(telegram(p, response=job["response"]))
                    trace_functions(f, rep) if not rep.functions else f()
                    marks.append((list(log[before:]), dev.state))
                c.notes.update(k=k, ps=ps)
                task = dev._reset_task
                return marks, (task.wait_before_start if task is not None else None), reset_after

            def judge(pr):
                c = pr.ctx
                if pr.kind in ("unsupported", "timeout"):
                    rep.inconcl(f"{job['name']}: {pr.kind} {pr.value}"); return
                n = c.notes
                m = c.current_model()
                mcase = lambda mm: dict(kind="reset", dev=dev_name, invert=invert, response=job["response"],
                                        reset_tenths=core.model_val(mm, n["k"]) if n.get("k") is not None else None, payloads=[core.model_val(mm, p) for p in n["ps"]])
                case = mcase(m)
                if pr.kind == "raise":
                    rep.ob("refuted", f"raises:reset:{type(pr.value).__name__}", case, repr(pr.value)); return
                marks, wait, reset_after = pr.value
                alive = 0
                for i, (events, state) in enumerate(marks):
                    pv = case["payloads"][i]
                    decoded = None if pv > 1 else ((pv == 1) != invert)
                    created = events.count(("create_task",))
                    cancelled = events.count(("task.cancel",))
                    if use_reset and decoded is True:
                        rep.reach["reset-armed"] += 1
                        ok = created == 1 and cancelled == alive and state is True
                        alive = alive - cancelled + created
                    else:
                        rep.reach["reset-not-armed"] += 1
                        ok = created == 0 and cancelled == 0
                    if decoded is not None and bool(state) != decoded and not (dev_name == "Switch" and False):
                        ok = False
                    if not ok or alive > 1:
                        rep.ob("refuted", f"reset-timer:{dev_name}", case, f"telegram {i} payload {pv} (decoded {decoded}): created {created}, cancelled {cancelled}, alive {alive}, state {state}"); return
                if use_reset and not (wait is reset_after or core.mk_bool(z3.fpEQ(fp.fval(wait), fp.fval(reset_after)))):
                    rep.ob("refuted", f"reset-delay:{dev_name}", case, f"timer waits {wait!r}"); return
                rep.obligations += 1; rep.discharged += 1
                rep.sample(dict(job=job["name"], witness=case), limit=1)
            _, st = core.explore(run, on_path=judge, stop=rep.enough, timeout=300, path_timeout=60)
            rep.add_stats(st)
        return

    if job["kind"] == "body":
        def run(c):
            log = []
            install_asyncio(log)
            xk = XKNX()
            k = c.fresh_int("reset_tenths", 0, 100)
            c.notes["k"] = k
            reset_after = k / 10
            dev = make_device(xk, dev_name, invert, reset_after)
            dev.process(telegram(0 if invert else 1))          # an 'on' telegram arms the timer
            state_on = dev.state
            task = dev._reset_task
            before = len(log)
            f = lambda: aio.drive(task._start_internal())
            trace_functions(f, rep) if not rep.functions else f()
            sleeps = [e for e in log[before:] if e[0] == "sleep"]
            queued = []
            while not xk.telegrams.empty():
                tg = xk.telegrams.get_nowait()
                queued.append(tg)
                dev.process(tg)
            return state_on, sleeps, queued, dev.state, reset_after

        def judge(pr):
            c = pr.ctx
            if pr.kind in ("unsupported", "timeout"):
                rep.inconcl(f"{job['name']}: {pr.kind} {pr.value}"); return
            m = c.current_model()
            case = dict(kind="body", dev=dev_name, invert=invert, reset_tenths=core.model_val(m, c.notes["k"]))
            if pr.kind == "raise":
                rep.ob("refuted", f"raises:body:{type(pr.value).__name__}", case, repr(pr.value)); return
            state_on, sleeps, queued, state_after, reset_after = pr.value
            rep.reach["timer-body"] += 1
            zero = case["reset_tenths"] == 0
            ok_sleep = (len(sleeps) == 0 and zero) or (len(sleeps) == 1 and (sleeps[0][1] is reset_after or core.mk_bool(z3.fpEQ(fp.fval(sleeps[0][1]), fp.fval(reset_after)))))
            ok = state_on is True and ok_sleep and state_after is False and (dev_name == "BinarySensor" or len(queued) == 1)
            rep.ob("proved" if ok else "refuted", f"timer-body:{dev_name}", case, f"on-state {state_on}, sleeps {sleeps!r}, queued {len(queued)}, state after {state_after}")
            rep.sample(dict(job=job["name"], witness=case), limit=1)
        _, st = core.explore(run, on_path=judge, stop=rep.enough, timeout=120, path_timeout=60)
        rep.add_stats(st)


def replay(case):
    import asyncio
    import types
    from xknx import XKNX
    import xknx.devices.binary_sensor as bsm
    import xknx.core.task_registry as trm

    kind = case["kind"]
    if kind == "counter":
        xk = XKNX()
        dev = make_device(xk, "BinarySensor", False, None, context_timeout=case["T"])
        dev._count_set_on, dev._count_set_off, dev._last_set = case["on0"], case["off0"], case["last"]
        reads = list(case["reads"]) or [TS]
        it = iter(reads)
        cur = [reads[0]]

        def now():
            try:
                cur[0] = next(it)
            except StopIteration:
                pass
            return cur[0]
        saved, saved_asyncio = bsm.time, trm.asyncio
        bsm.time = types.SimpleNamespace(time=now)
        try:
            st_ = case["state"]
            if case["via"] == "direct":
                ret = dev.bump_and_get_counter(st_)
            else:
                started = []
                xk.task_registry = types.SimpleNamespace(start_task=started.append, remove_task=lambda t: None)
                dev.process(telegram(1 if st_ else 0))
                ret = dev.counter
        except Exception as e:  # noqa: BLE001
            return True, f"counter step raised {e!r}"
        finally:
            bsm.time = saved
        within = case["last"] is not None and (reads[0] - case["last"]) < case["T"]
        exp_on = (case["on0"] + 1 if st_ else case["on0"]) if within else (1 if st_ else 0)
        exp_off = (case["off0"] if st_ else case["off0"] + 1) if within else (0 if st_ else 1)
        exp_ret = exp_on if st_ else exp_off
        got = (dev._count_set_on, dev._count_set_off, ret, dev._last_set)
        if got != (exp_on, exp_off, exp_ret, reads[0]):
            return True, f"{case}: counters/return/last_set {got}, reference {(exp_on, exp_off, exp_ret, reads[0])}"
        return False, "ok"
    if kind == "counter-task":
        return False, "structural"

    async def go():
        xk = XKNX()
        ra = None if case.get("reset_tenths") is None else case["reset_tenths"] / 10
        dev = make_device(xk, case["dev"], case["invert"], ra)
        loop = asyncio.get_running_loop()
        if kind == "reset":
            alive_tasks = []
            for i, pv in enumerate(case["payloads"]):
                dev.process(telegram(pv, response=case["response"]))
                decoded = None if pv > 1 else ((pv == 1) != case["invert"])
                t = dev._reset_task._task if dev._reset_task is not None else None
                if ra is not None and decoded is True:
                    if t is None or t.done() or t in alive_tasks:
                        return True, f"{case}: 'on' telegram {i} did not (re)start the reset timer"
                    await asyncio.sleep(0)
                    for old in alive_tasks:
                        if not (old.cancelled() or old.done() or old.cancelling()):
                            return True, f"{case}: an earlier reset timer is still alive after 'on' telegram {i}"
                    alive_tasks.append(t)
                else:
                    if t is not None and t not in alive_tasks:
                        return True, f"{case}: telegram {i} (decoded {decoded}) started a reset timer"
                if decoded is not None and bool(dev.state) != decoded:
                    return True, f"{case}: state {dev.state} after telegram {i} decoded {decoded}"
            for t in alive_tasks:
                t.cancel()
            return False, "ok"
        # body: virtual time via patched sleep
        slept = []
        real_sleep = asyncio.sleep

        async def fake_sleep(d):
            slept.append(d)
            await real_sleep(0)
        trm.asyncio.sleep, saved = fake_sleep, trm.asyncio.sleep
        try:
            dev.process(telegram(0 if case["invert"] else 1))
            if dev.state is not True:
                return True, f"{case}: not on after an 'on' telegram"
            await dev._reset_task
            while not xk.telegrams.empty():
                dev.process(xk.telegrams.get_nowait())
        finally:
            trm.asyncio.sleep = saved
        want = [] if ra == 0 else [ra]
        if slept != want or dev.state is not False:
            return True, f"{case}: timer slept {slept} (configured {ra}), state afterwards {dev.state}"
        return False, "ok"
    return asyncio.run(go())
