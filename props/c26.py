"""C26 Heartbeat gives up exactly after four consecutive failures."""
from __future__ import annotations

ID = "C26"
BOUNDS = {
    "quick": "the real ConnectionHeartbeat._run coroutine driven through 2 heartbeat periods; every sequence of request outcomes from {connection gone (None), success, no response, error status, raises CommunicationError} that the loop can consume (up to 8 requests) is explored as a symbolic choice per request and compared with the reference automaton",
    "thorough": "3 heartbeat periods (up to 12 requests)",
}
OUTSIDE = "start()/stop() task management and cancellation (event loop semantics); more periods than the bound (the loop body carries no state across iterations: `success`/`status` are re-bound before use, checked by the reference comparison over two consecutive periods)"
ASSUMPTIONS = [
    "asyncio.sleep inside xknx.io.data_connection completes immediately and records its argument (virtual time); send_connectionstate / on_failure are environment coroutines completing immediately",
    "reference automaton: each period: sleep(HEARTBEAT_RATE), then at most 4 requests; None -> quiet end; success -> next period; raise -> on_failure once, end; 4 failures -> on_failure once, end",
]
EXPLANATION = "C26: the real coroutine is stepped with send(None) against symbolic outcome choices; per feasible outcome sequence the recorded events equal the reference automaton's."
INTERESTING = ["gave-up", "quiet-end", "kept-going"]
REQUIRED_REACH = ["gave-up", "quiet-end", "kept-going"]


def jobs(tier, seed):
    periods = 2 if tier == "quick" else 3
    # split on the outcome of the very first request to use several cores
    return [dict(name=f"first{o}", first=o, periods=periods, cost=10) for o in range(5)]


def reference(outcomes, periods, rate):
    """Events the specification prescribes for the given outcome sequence (consumes as many outcomes as needed)."""
    ev, i = [], 0
    for p in range(periods + 1):
        ev.append(("sleep", rate))
        if p == periods:
            return ev, i, "stopped"
        fails = 0
        while True:
            if i >= len(outcomes):
                return ev, i, "need-more"
            o = outcomes[i]; i += 1
            ev.append(("req", o))
            if o == 0:
                return ev, i, "returned"
            if o == 4:
                ev.append(("on_failure",))
                return ev, i, "returned"
            if o == 1:
                break
            fails += 1
            if fails == 4:
                ev.append(("on_failure",))
                return ev, i, "returned"
    return ev, i, "stopped"


def run_job(job, rep):
    from symx import core, aio
    from vx.harness import trace_functions
    import xknx.io.data_connection as dc
    from xknx.io.const import HEARTBEAT_RATE
    from xknx.exceptions import CommunicationError

    periods = job["periods"]

    def run(c):
        log = []
        dc.asyncio = aio.asyncio_shim(log, sleep_budget=periods)
        outcomes = []

        async def send():
            i = len(outcomes)
            if i == 0:
                o = job["first"]
            else:
                o = core.concretize(c.fresh_int(f"o{i}", 0, 4))
            outcomes.append(o)
            log.append(("req", o))
            if o == 0:
                return None
            if o == 1:
                return (True, None)
            if o == 2:
                return (False, None)
            if o == 3:
                return (False, "E_CONNECTION_ID")
            raise CommunicationError("no route")

        async def on_failure():
            log.append(("on_failure",))
        hb = dc.ConnectionHeartbeat("Tunnel", send, on_failure)
        f = lambda: aio.drive(hb._run())
        res = trace_functions(f, rep) if not rep.functions else f()
        return log, outcomes, res[0]

    def judge(pr):
        if pr.kind != "ok":
            rep.ob("refuted", f"heartbeat-raises:{type(pr.value).__name__}", dict(outcomes=[], periods=periods), repr(pr.value)); return
        log, outcomes, res = pr.value
        ev, used, end = reference(outcomes, periods, HEARTBEAT_RATE)
        case = dict(outcomes=outcomes, periods=periods)
        ok = (log == ev and used == len(outcomes) and res == end)
        tag = "gave-up" if ("on_failure",) in ev else ("quiet-end" if end == "returned" else "kept-going")
        rep.reach[tag] += 1
        rep.ob("proved" if ok else "refuted", f"heartbeat-deviates:{tag}", case, f"real {log} {res} vs reference {ev} {end}")
        rep.sample(dict(outcomes=outcomes, events=[e[0] for e in log], end=res), limit=3)

    _, st = core.explore(run, on_path=judge, stop=rep.enough, timeout=900)
    rep.add_stats(st)


def replay(case):
    """Real asyncio with asyncio.sleep patched to virtual time."""
    import asyncio
    from unittest.mock import patch
    import xknx.io.data_connection as dc
    from xknx.io.const import HEARTBEAT_RATE
    from xknx.exceptions import CommunicationError
    outcomes = list(case["outcomes"])
    periods = case["periods"]

    class Stop(BaseException):
        pass

    async def go():
        log, it = [], iter(outcomes)
        sleeps = [0]
        real_sleep = asyncio.sleep

        async def fake_sleep(d):
            log.append(("sleep", d))
            sleeps[0] += 1
            if sleeps[0] > periods:
                raise Stop()
            await real_sleep(0)

        async def send():
            try:
                o = next(it)
            except StopIteration:
                raise Stop() from None
            log.append(("req", o))
            if o == 0:
                return None
            if o == 1:
                return (True, None)
            if o == 2:
                return (False, None)
            if o == 3:
                return (False, "E_CONNECTION_ID")
            raise CommunicationError("no route")

        async def on_failure():
            log.append(("on_failure",))
        hb = dc.ConnectionHeartbeat("Tunnel", send, on_failure)
        with patch.object(dc.asyncio, "sleep", fake_sleep):
            try:
                await hb._run()
                end = "returned"
            except Stop:
                end = "stopped"
        ev, used, rend = reference(outcomes, periods, HEARTBEAT_RATE)
        if rend == "need-more":
            # the reference automaton would still be asking: ending (or giving up) here is a deviation
            if end == "returned":
                return True, f"outcomes {outcomes}: heartbeat ended with {log} where the reference continues"
            return False, "outcome sequence too short"
        if log != ev or end != rend:
            return True, f"outcomes {outcomes}: heartbeat did {log} ({end}); reference {ev} ({rend})"
        return False, "ok"
    return asyncio.run(go())
