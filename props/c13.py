"""C13 cEMI link frames round-trip and carry the correct frame type."""
from __future__ import annotations

ID = "C13"
BOUNDS = {
    "quick": "built frames: src/dst raw 16 bit symbolic, destination kind x every TPCI class (sequence number symbolic 0..15), priority over all members, repeat/system-broadcast/ack/confirm flags symbolic, hop count symbolic -65536..65536, APDU = GroupValueWrite with 6-bit value or DPTArray of n symbolic octets, n in {1..17, 252..256}; received frames: CEMILData.from_knx on fully symbolic L_Data of 8..10 octets (no cut) and 11..14 octets (APDU restricted to the GroupValueWrite / malformed / unsupported families)",
    "thorough": "built frames with every n in 1..256; received frames 8..11 octets without cut, 12..24 with the family restriction",
}
OUTSIDE = "APDUs of other services inside built frames (their own encode/decode round trip is C05/C06); LTE-HEE extended frame formats (rejected by the parser by design)"
ASSUMPTIONS = [
    "frame_type held in CEMIFlags is documented as informational/derived and is excluded from the flags comparison; the FT bit itself is checked against the NPDU length",
    "reserved application bits = /verif/spec/apci_reserved.py (shared with C05)",
    "bit 6 of control field 1 is reserved ('r' in 3/6/3 §4.1.4.3.2) and is treated like the reserved application bits when comparing re-serialised received frames",
]
EXPLANATION = ("C13: CEMILData.to_knx / from_knx, CEMIFlags.to_knx / from_knx, TPCI, GroupValueWrite run on symbolic field "
               "values; z3 decides round-trip equality, the FT/AT bits, the rejection conditions and the re-serialisation of received frames.")
INTERESTING = ["built-roundtrip", "built-refused", "received-reserialised"]
REQUIRED_REACH = ["built-roundtrip", "built-refused", "received-reserialised"]


def jobs(tier, seed):
    ns = list(range(1, 18)) + [252, 253, 254, 255, 256] if tier == "quick" else list(range(1, 257))
    out = []
    for group in (True, False):
        for n in [0] + ns:
            out.append(dict(name=f"built-{'g' if group else 'i'}-n{n}", kind="built", group=group, n=n, cost=5 + n // 8))
        out.append(dict(name=f"control-{'g' if group else 'i'}", kind="control", group=group, cost=3))
        out.append(dict(name=f"telegram-{'g' if group else 'i'}", kind="telegram", group=group, cost=3))
    full = (8, 10) if tier == "quick" else (8, 11)
    fam = (11, 14) if tier == "quick" else (12, 24)
    for L in range(full[0], full[1] + 1):
        out.append(dict(name=f"recv-full-L{L}", kind="recv", L=L, full=True, cost=40 * (L - 7) ** 2))
    for L in range(fam[0], fam[1] + 1):
        out.append(dict(name=f"recv-fam-L{L}", kind="recv", L=L, full=False, cost=30))
    return out


DATA_TPCI = {True: ["TDataGroup", "TDataBroadcast", "TDataTagGroup"], False: ["TDataIndividual", "TDataConnected"]}
CTRL_TPCI = ["TConnect", "TDisconnect", "TAck", "TNak"]


def run_job(job, rep):
    import z3
    from symx import core, shims
    from vx.harness import trace_functions
    from vx.util import exc_site, sym_eq
    from spec.apci_reserved import reserved_mask
    import xknx.cemi.cemi_frame as cf
    import xknx.cemi.flags as fl
    import xknx.telegram.tpci as tp
    import xknx.telegram.apci as apci
    from xknx.dpt import DPTArray, DPTBinary
    from xknx.exceptions import ConversionError, CouldNotParseCEMI, UnsupportedCEMIMessage
    from xknx.telegram import GroupAddress, IndividualAddress, Telegram

    kind = job["kind"]
    if kind == "recv":
        import props.c12 as c12
        if not job["full"]:
            c12.validate_families()
            c12.install_family_cut(cf, None)
        L = job["L"]

        def run(c):
            raw = c.fresh_bytes("b", L)
            c.notes["raw"] = raw
            try:
                d = cf.CEMILData.from_knx(raw)
            except (CouldNotParseCEMI, UnsupportedCEMIMessage):
                return None
            try:
                enc = d.to_knx()
            except ConversionError as e:
                return ("refused", d, e)
            return ("enc", d, enc)

        def judge(pr):
            c = pr.ctx
            raw = c.notes["raw"]
            if pr.kind in ("unsupported", "timeout"):
                rep.inconcl(f"recv L={L}: {pr.kind} {pr.value}"); return
            m = c.current_model()
            case = dict(kind="recv", raw=raw.concrete(m).hex())
            if pr.kind == "raise":
                rep.ob("refuted", "recv-reserialise-raises:" + exc_site(pr.value), case, repr(pr.value)); return
            if pr.value is None:
                return
            if pr.value[0] == "refused":
                rep.ob("refuted", "recv-reserialise-refused", case, repr(pr.value[2])); return
            _, d, enc = pr.value
            rep.reach["received-reserialised"] += 1
            if len(enc) != L:
                rep.ob("refuted", "recv-length", case, f"{len(enc)} != {L}"); return
            svc = type(d.payload).__name__ if d.payload is not None else None
            amask = reserved_mask(svc, L - 7) if svc else {}
            bad = []
            for i in range(L):
                prot = 0xFF
                if i == 0:
                    prot = 0x3F          # FT bit is derived; bit 6 of Ctrl1 is reserved ('r', 3/6/3 §4.1.4.3.2)
                if i >= 7 and (i - 7) in amask:
                    prot &= ~amask[i - 7]
                a, b = enc[i], raw[i]
                t = (core.zint(a) ^ core.zint(b)) & prot
                bad.append(t != 0)
            st, mm = c.sat(z3.Or(*bad))
            if st == "sat":
                r = raw.concrete(mm)
                e2 = bytes(core.model_int(mm, x) for x in enc)
                diff = [i for i in range(L) if r[i] != e2[i]]
                rep.ob("refuted", f"recv-reserialise-differs:octet{diff[0] if diff else '?'}", dict(kind="recv", raw=r.hex()), f"raw={r.hex()} enc={e2.hex()}")
            else:
                rep.ob("proved" if st == "unsat" else "unknown", "recv-reserialise-differs", case)
            # FT bit of the re-serialised frame follows the NPDU length
            npdu = L - 8
            ft = (enc[0] >> 7) & 1
            st, mm = c.prove(ft == (1 if npdu <= 15 else 0))
            rep.ob(st, "recv-ft-bit", case if mm is None else dict(kind="recv", raw=raw.concrete(mm).hex()), "FT bit after re-serialisation")
            rep.sample(dict(kind="recv", L=L, witness=case["raw"], service=svc), limit=1)

        _, st = core.explore(run, on_path=judge, stop=rep.enough, timeout=2400)
        rep.add_stats(st)
        return

    group = job["group"]
    n = job.get("n", 0)
    tnames = CTRL_TPCI if kind == "control" else DATA_TPCI[group]
    if kind == "control" and group:
        tnames = []     # control PDUs are never sent to group addresses
    prios = list(fl.CEMIPriority)
    for tname in tnames:
        tcls = getattr(tp, tname)
        takes_seq = "sequence_number" in getattr(tcls, "__slots__", ())

        def mk(c):
            src = c.fresh_int("src", 0, 65535)
            dst = c.fresh_int("dst", 0, 65535)
            if tname == "TDataBroadcast":
                dst = 0
            elif tname == "TDataGroup":
                c.add(dst != 0)
            seq = c.fresh_int("seq", 0, 15) if takes_seq else None
            tpci = tcls(seq) if takes_seq else tcls()
            if kind == "control":
                payload = None
                val = None
            elif n == 0:
                val = c.fresh_int("v", 0, 63)
                payload = apci.GroupValueWrite(DPTBinary(val))
            else:
                val = [c.fresh_int(f"d{i}", 0, 255) for i in range(n)]
                payload = apci.GroupValueWrite(DPTArray(tuple(val)))
            dsta = GroupAddress(dst) if group else IndividualAddress(dst)
            inputs = dict(src=src, dst=dst, seq=seq, val=val)
            if kind == "telegram":
                tg = Telegram(destination_address=dsta, payload=payload, source_address=IndividualAddress(src), tpci=tpci)
                d = cf.CEMILData.init_from_telegram(tg)
                inputs.update(telegram=True)
            else:
                pi = core.concretize(c.fresh_int("prio_idx", 0, len(prios) - 1))
                hop = c.fresh_int("hop", -(1 << 16), 1 << 16)
                fb = {k: c.fresh_bool(k) for k in ("repeat_on_error", "system_broadcast", "acknowledge_request", "confirm_error")}
                flags = fl.CEMIFlags(priority=prios[pi], hop_count=hop, **fb)
                d = cf.CEMILData(flags=flags, src_addr=IndividualAddress(src), dst_addr=dsta, tpci=tpci, payload=payload)
                inputs.update(prio=prios[pi].name, hop=hop, **fb)
            return d, inputs

        def run(c):
            d, inputs = mk(c)
            c.notes["inputs"] = inputs
            try:
                enc = d.to_knx()
            except ConversionError as e:
                return ("refused", d, e)
            p = cf.CEMILData.from_knx(shims.bytes_shim(enc))
            return ("enc", d, enc, p)

        def judge(pr):
            c = pr.ctx
            if pr.kind in ("unsupported", "timeout"):
                rep.inconcl(f"{job['name']} {tname}: {pr.kind} {pr.value}"); return
            m = c.current_model()
            inp = c.notes.get("inputs", {})

            def mcase(mm):
                return dict(kind="built", group=group, tpci=tname, n=n, control=(kind == "control"),
                            **{k: core.model_val(mm, v) for k, v in inp.items()})
            case = mcase(m)
            npdu = 0 if kind == "control" else (1 if n == 0 else 1 + n)
            if pr.kind == "raise":
                rep.ob("refuted", f"built-frame-raises:{exc_site(pr.value)}", case, repr(pr.value)); return
            hop = inp.get("hop", 6)
            hop_ok = core.sym_and(hop >= 0, hop <= 7)
            if pr.value[0] == "refused":
                rep.reach["built-refused"] += 1
                # refusal is only allowed for npdu > 254 or hop count out of range
                if npdu > 254:
                    rep.obligations += 1; rep.discharged += 1
                else:
                    st, mm = c.prove(core.sym_not(hop_ok))
                    rep.ob(st, "refused-valid-frame", mcase(mm) if mm is not None else case, repr(pr.value[2]))
                return
            _, d, enc, p = pr.value
            rep.reach["built-roundtrip"] += 1
            if npdu > 254:
                rep.ob("refuted", "overlong-apdu-accepted", case, f"npdu_len {npdu} serialised"); return
            st, mm = c.prove(hop_ok)
            rep.ob(st, "hop-count-out-of-range-accepted", mcase(mm) if mm is not None else case, "hop count outside 0..7 serialised")
            checks = {
                "src": sym_eq(p.src_addr, d.src_addr), "dst": core.sym_and(type(p.dst_addr) is type(d.dst_addr), sym_eq(p.dst_addr, d.dst_addr)),
                "tpci": core.sym_and(type(p.tpci) is type(d.tpci), p.tpci == d.tpci),
                "payload": sym_eq(p.payload, d.payload),
                "priority": p.flags.priority is d.flags.priority,
                "repeat": sym_eq(p.flags.repeat_on_error, d.flags.repeat_on_error),
                "system_broadcast": sym_eq(p.flags.system_broadcast, d.flags.system_broadcast),
                "ack": sym_eq(p.flags.acknowledge_request, d.flags.acknowledge_request),
                "confirm": sym_eq(p.flags.confirm_error, d.flags.confirm_error),
                "hop": sym_eq(p.flags.hop_count, d.flags.hop_count),
                "frame_format": p.flags.frame_format is d.flags.frame_format,
                "ft-bit": ((enc[0] >> 7) & 1) == (1 if npdu <= 15 else 0),
                "at-bit": ((enc[1] >> 7) & 1) == (1 if group else 0),
                "length-octet": enc[6] == npdu,
                "total-length": len(enc) == 8 + npdu,
            }
            for k, cond in checks.items():
                st, mm = c.prove(cond)
                rep.ob(st, f"built-{k}", mcase(mm) if mm is not None else case, f"{k} differs after round trip")
            rep.sample(dict(job=job["name"], tpci=tname, witness={k: v for k, v in case.items() if k != "val"}), limit=1)

        first = [True]
        _, st = core.explore(run, on_path=judge, stop=rep.enough, timeout=1200)
        rep.add_stats(st)
    if kind == "built" and not rep.functions:
        pass


def _build(case):
    import xknx.cemi.cemi_frame as cf
    import xknx.cemi.flags as fl
    import xknx.telegram.tpci as tp
    import xknx.telegram.apci as apci
    from xknx.dpt import DPTArray, DPTBinary
    from xknx.telegram import GroupAddress, IndividualAddress, Telegram
    tcls = getattr(tp, case["tpci"])
    tpci = tcls(case["seq"]) if case.get("seq") is not None else tcls()
    if case["control"]:
        payload = None
    elif case["n"] == 0:
        payload = apci.GroupValueWrite(DPTBinary(case["val"]))
    else:
        payload = apci.GroupValueWrite(DPTArray(tuple(case["val"])))
    dsta = GroupAddress(case["dst"]) if case["group"] else IndividualAddress(case["dst"])
    if case.get("telegram"):
        return cf.CEMILData.init_from_telegram(Telegram(destination_address=dsta, payload=payload, source_address=IndividualAddress(case["src"]), tpci=tpci))
    flags = fl.CEMIFlags(priority=fl.CEMIPriority[case["prio"]], hop_count=case["hop"], repeat_on_error=case["repeat_on_error"],
                         system_broadcast=case["system_broadcast"], acknowledge_request=case["acknowledge_request"], confirm_error=case["confirm_error"])
    return cf.CEMILData(flags=flags, src_addr=IndividualAddress(case["src"]), dst_addr=dsta, tpci=tpci, payload=payload)


def replay(case):
    import xknx.cemi.cemi_frame as cf
    from spec.apci_reserved import reserved_mask
    from xknx.exceptions import ConversionError, CouldNotParseCEMI, UnsupportedCEMIMessage
    if case["kind"] == "recv":
        raw = bytes.fromhex(case["raw"])
        try:
            d = cf.CEMILData.from_knx(raw)
        except (CouldNotParseCEMI, UnsupportedCEMIMessage):
            return False, "rejected"
        try:
            enc = d.to_knx()
        except Exception as e:  # noqa: BLE001
            return True, f"received frame cannot be re-serialised: {e!r}"
        if len(enc) != len(raw):
            return True, "length differs"
        svc = type(d.payload).__name__ if d.payload is not None else None
        amask = reserved_mask(svc, len(raw) - 7) if svc else {}
        for i in range(len(raw)):
            prot = 0x3F if i == 0 else 0xFF
            if i >= 7 and (i - 7) in amask:
                prot &= ~amask[i - 7]
            if (enc[i] ^ raw[i]) & prot:
                return True, f"octet {i}: {raw[i]:#04x} -> {enc[i]:#04x}; raw={raw.hex()} enc={enc.hex()}"
        npdu = len(raw) - 8
        if (enc[0] >> 7) != (1 if npdu <= 15 else 0):
            return True, f"FT bit {enc[0] >> 7} for NPDU length {npdu}"
        return False, "ok"
    d = _build(case)
    npdu = 0 if case["control"] else (1 if case["n"] == 0 else 1 + case["n"])
    hop = case.get("hop", 6)
    try:
        enc = d.to_knx()
    except ConversionError as e:
        if npdu > 254 or not 0 <= hop <= 7:
            return False, "rightly refused"
        return True, f"valid frame refused: {e}"
    except Exception as e:  # noqa: BLE001
        return True, f"to_knx raised {e!r}"
    if npdu > 254:
        return True, f"APDU with NPDU length {npdu} serialised"
    if not 0 <= hop <= 7:
        return True, f"hop count {hop} serialised as {enc.hex()}"
    try:
        p = cf.CEMILData.from_knx(bytes(enc))
    except Exception as e:  # noqa: BLE001
        return True, f"built frame {enc.hex()} does not parse: {e!r}"
    f1, f2 = p.flags, d.flags
    if (p.src_addr != d.src_addr or p.dst_addr != d.dst_addr or type(p.tpci) is not type(d.tpci) or p.tpci != d.tpci or p.payload != d.payload
            or (f1.priority, f1.repeat_on_error, f1.system_broadcast, f1.acknowledge_request, f1.confirm_error, f1.hop_count, f1.frame_format)
            != (f2.priority, f2.repeat_on_error, f2.system_broadcast, f2.acknowledge_request, f2.confirm_error, f2.hop_count, f2.frame_format)):
        return True, f"{d!r} -> {enc.hex()} -> {p!r}"
    if (enc[0] >> 7) != (1 if npdu <= 15 else 0):
        return True, f"FT bit {enc[0] >> 7} for NPDU length {npdu}"
    if (enc[1] >> 7) != (1 if case["group"] else 0):
        return True, "AT bit wrong"
    if enc[6] != npdu or len(enc) != 8 + npdu:
        return True, "length octet wrong"
    return False, "ok"
