"""C46 Automatic connection never downgrades a secured gateway."""
from __future__ import annotations

ID = "C46"
BOUNDS = {
    "quick": "gateway descriptor built by the real parse_dibs from a supported-service-families DIB (CORE version 0..3, TUNNELING absent or version 1..3, ROUTING absent/present, SECURITY absent or version 0..2; versions symbolic) and an optional secured-service-families DIB (absent / listing any subset of TUNNELING, ROUTING), in both DIB orders; scan filter flags (tunnelling, tunnelling_tcp, routing, secure_tunnelling, secure_routing) symbolic booleans (and the all-None filter); keyring absent / containing the gateway / containing another host; KNXIPInterface._start_automatic driven as one coroutine with recorder _start_* methods raising or not",
    "thorough": "same (complete for the stated space)",
}
OUTSIDE = "the UDP search itself (GatewayScanner.async_scan is replaced by a generator yielding the descriptor iff the real GatewayScanFilter.match accepts it); several gateways answering; explicit (non-automatic) connection types"
ASSUMPTIONS = [
    "'announces that service as secured' = the family is listed in the gateway's secured-service-families DIB",
    "reference filter: (tunnelling and supports_tunnelling and not tunnelling_secured) or (tunnelling_tcp and supports_tunnelling_tcp and not tunnelling_secured) or (routing and supports_routing and not routing_secured) or (secure_tunnelling and supports_tunnelling_tcp and tunnelling_secured) or (secure_routing and supports_routing and routing_secured)",
]
EXPLANATION = "C46: GatewayDescriptor.parse_dibs, GatewayScanFilter.match and KNXIPInterface._start_automatic run on symbolic capabilities; z3 decides that no plain tunnel/routing start is reached for a service announced as secured and that the filter equals the five-clause reference."
INTERESTING = ["plain-tunnel", "secure-tunnel", "plain-routing", "no-connection", "filtered-out"]
REQUIRED_REACH = ["plain-tunnel", "secure-tunnel", "plain-routing", "no-connection", "filtered-out"]


def jobs(tier, seed):
    out = []
    for sec in ("absent", "first", "last"):
        for keyring in ("none", "gw", "other"):
            out.append(dict(name=f"secdib-{sec}-keyring-{keyring}", sec=sec, keyring=keyring, cost=5))
    out.append(dict(name="filter-none", sec="last", keyring="none", none_filter=True, cost=2))
    return out


def run_job(job, rep):
    import types
    from symx import core, aio
    from vx.harness import trace_functions
    from vx.util import exc_site
    import xknx.io.knxip_interface as ki
    import xknx.io.gateway_scanner as gs
    from xknx.io.connection import ConnectionConfig
    from xknx.knxip.dib import DIBSuppSVCFamilies, DIBSecuredServiceFamilies
    from xknx.knxip.knxip_enum import DIBServiceFamily
    from xknx.telegram import IndividualAddress
    from xknx.exceptions import CommunicationError

    F = DIBSuppSVCFamilies.Family
    GW_IA = IndividualAddress(0x1100)

    def run(c):
        supp = DIBSuppSVCFamilies()
        core_v = c.fresh_int("core_version", 0, 3)
        supp.families.append(F(DIBServiceFamily.CORE, core_v))
        tun_present = core.concretize(c.fresh_int("tunnelling_present", 0, 1))
        tun_v = c.fresh_int("tunnelling_version", 1, 3)
        if tun_present:
            supp.families.append(F(DIBServiceFamily.TUNNELING, tun_v))
        rout_present = core.concretize(c.fresh_int("routing_present", 0, 1))
        if rout_present:
            supp.families.append(F(DIBServiceFamily.ROUTING, 1))
        sec_present = core.concretize(c.fresh_int("security_present", 0, 1))
        if sec_present:
            supp.families.append(F(DIBServiceFamily.SECURITY, c.fresh_int("security_version", 0, 2)))
        dibs = [supp]
        sec_t = sec_r = 0
        if job["sec"] != "absent":
            sd = DIBSecuredServiceFamilies()
            sec_t = core.concretize(c.fresh_int("secured_tunnelling", 0, 1))
            sec_r = core.concretize(c.fresh_int("secured_routing", 0, 1))
            if sec_t:
                sd.families.append(F(DIBServiceFamily.TUNNELING, 1))
            if sec_r:
                sd.families.append(F(DIBServiceFamily.ROUTING, 1))
            dibs = [sd, supp] if job["sec"] == "first" else [supp, sd]
        gw = gs.GatewayDescriptor(ip_addr="10.0.0.5", port=3671, individual_address=GW_IA)
        f = lambda: gw.parse_dibs(dibs)
        trace_functions(f, rep) if not rep.functions else f()
        if job.get("none_filter"):
            flt = gs.GatewayScanFilter(tunnelling=None, tunnelling_tcp=None, routing=None, secure_tunnelling=None, secure_routing=None)
            flags = {k: False for k in ("tunnelling", "tunnelling_tcp", "routing", "secure_tunnelling", "secure_routing")}
        else:
            flags = {k: c.fresh_bool(k) for k in ("tunnelling", "tunnelling_tcp", "routing", "secure_tunnelling", "secure_routing")}
            flt = gs.GatewayScanFilter(**flags)
        matched = flt.match(gw)
        facts = dict(supports_tunnelling=bool(tun_present), tcp=core.sym_and(bool(tun_present), tun_v >= 2), supports_routing=bool(rout_present), sec_t=bool(sec_t), sec_r=bool(sec_r))
        ref = core.sym_or(core.sym_and(flags["tunnelling"], facts["supports_tunnelling"], not sec_t), core.sym_and(flags["tunnelling_tcp"], facts["tcp"], not sec_t),
                          core.sym_and(flags["routing"], facts["supports_routing"], not sec_r), core.sym_and(flags["secure_tunnelling"], facts["tcp"], sec_t),
                          core.sym_and(flags["secure_routing"], facts["supports_routing"], sec_r))
        c.notes.update(core_v=core_v, tun_present=tun_present, tun_v=tun_v, rout_present=rout_present, sec_t=sec_t, sec_r=sec_r, flags=flags, sec_present=sec_present)
        yielded = bool(matched)          # forks if symbolic
        started = []
        fail = core.concretize(c.fresh_int("start_fails", 0, 1))

        def rec(name):
            async def f_(self, **kw):
                started.append(name)
                if fail:
                    raise CommunicationError("cannot connect")
            return f_
        for nm in ("_start_tunnelling_tcp", "_start_tunnelling_udp", "_start_routing", "_start_secure_tunnelling_tcp", "_start_secure_routing"):
            setattr(ki.KNXIPInterface, nm, rec(nm))

        class Scanner:
            def __init__(self, xknx, local_ip=None, scan_filter=None):
                pass

            async def async_scan(self):
                if yielded:
                    yield gw
        ki.GatewayScanner = Scanner
        keyring = None
        if job["keyring"] != "none":
            host = GW_IA if job["keyring"] == "gw" else IndividualAddress(0x1200)
            from xknx.secure.keyring import InterfaceType
            keyring = types.SimpleNamespace(interfaces=[types.SimpleNamespace(host=host, type=InterfaceType.TUNNELING)], get_tunnel_host_by_interface=lambda tunnelling_slot: host)
        itf = ki.KNXIPInterface.__new__(ki.KNXIPInterface)
        itf.xknx = types.SimpleNamespace()
        itf.connection_config = ConnectionConfig(scan_filter=flt)
        itf._gateway_info = None
        try:
            aio.drive(itf._start_automatic(local_ip=None, keyring=keyring))
            outcome = "connected"
        except CommunicationError:
            outcome = "no-connection"
        return matched, ref, started, outcome, yielded, gw

    def judge(pr):
        c = pr.ctx
        if pr.kind in ("unsupported", "timeout"):
            rep.inconcl(f"{job['name']}: {pr.value}"); return
        n_ = c.notes
        m = c.current_model()

        def mcase(mm):
            return dict(sec=job["sec"], keyring=job["keyring"], none_filter=bool(job.get("none_filter")), core_version=core.model_val(mm, n_["core_v"]), tunnelling_present=n_["tun_present"],
                        tunnelling_version=core.model_val(mm, n_["tun_v"]), routing_present=n_["rout_present"], security_present=n_["sec_present"], secured_tunnelling=n_["sec_t"],
                        secured_routing=n_["sec_r"], flags={k: core.model_val(mm, v) for k, v in n_["flags"].items()})
        case = mcase(m)
        if pr.kind == "raise":
            rep.ob("refuted", "automatic-raises:" + exc_site(pr.value), case, repr(pr.value)); return
        matched, ref, started, outcome, yielded, gw = pr.value
        st, mm = c.prove(core.as_z3_bool(matched) == core.as_z3_bool(ref))
        rep.ob(st, "scan-filter-differs-from-reference", mcase(mm) if mm is not None else case, "GatewayScanFilter.match differs from the five-clause reference")
        # descriptor flags reflect the announcement
        ok_desc = (bool(gw.tunnelling_requires_secure) == bool(n_["sec_t"])) and (bool(gw.routing_requires_secure) == bool(n_["sec_r"]))
        rep.ob("proved" if ok_desc else "refuted", "secured-families-announcement-lost", case, f"descriptor tunnelling_requires_secure={gw.tunnelling_requires_secure} routing_requires_secure={gw.routing_requires_secure}")
        plain_tunnel = [s for s in started if s in ("_start_tunnelling_tcp", "_start_tunnelling_udp")]
        plain_routing = [s for s in started if s == "_start_routing"]
        if not yielded:
            rep.reach["filtered-out"] += 1
        elif plain_tunnel:
            rep.reach["plain-tunnel"] += 1
        elif plain_routing:
            rep.reach["plain-routing"] += 1
        elif started:
            rep.reach["secure-tunnel"] += 1
        else:
            rep.reach["no-connection"] += 1
        bad = (plain_tunnel and n_["sec_t"]) or (plain_routing and n_["sec_r"])
        rep.ob("refuted" if bad else "proved", "security-downgrade", case, f"started {started} for a gateway announcing secured tunnelling={bool(n_['sec_t'])} routing={bool(n_['sec_r'])}")
        rep.sample(dict(witness=case, started=started, outcome=outcome), limit=2)

    _, st = core.explore(run, on_path=judge, stop=rep.enough, timeout=600)
    rep.add_stats(st)


def replay(case):
    import asyncio
    from unittest.mock import patch, Mock
    from xknx import XKNX
    import xknx.io.knxip_interface as ki
    import xknx.io.gateway_scanner as gs
    from xknx.io.connection import ConnectionConfig
    from xknx.knxip.dib import DIBSuppSVCFamilies, DIBSecuredServiceFamilies
    from xknx.knxip.knxip_enum import DIBServiceFamily
    from xknx.telegram import IndividualAddress
    from xknx.exceptions import CommunicationError
    F = DIBSuppSVCFamilies.Family
    GW_IA = IndividualAddress(0x1100)

    async def go():
        supp = DIBSuppSVCFamilies()
        supp.families.append(F(DIBServiceFamily.CORE, case["core_version"]))
        if case["tunnelling_present"]:
            supp.families.append(F(DIBServiceFamily.TUNNELING, case["tunnelling_version"]))
        if case["routing_present"]:
            supp.families.append(F(DIBServiceFamily.ROUTING, 1))
        if case["security_present"]:
            supp.families.append(F(DIBServiceFamily.SECURITY, 1))
        dibs = [supp]
        if case["sec"] != "absent":
            sd = DIBSecuredServiceFamilies()
            if case["secured_tunnelling"]:
                sd.families.append(F(DIBServiceFamily.TUNNELING, 1))
            if case["secured_routing"]:
                sd.families.append(F(DIBServiceFamily.ROUTING, 1))
            dibs = [sd, supp] if case["sec"] == "first" else [supp, sd]
        gw = gs.GatewayDescriptor(ip_addr="10.0.0.5", port=3671, individual_address=GW_IA)
        gw.parse_dibs(dibs)
        fl = {k: (None if case["none_filter"] else v) for k, v in case["flags"].items()}
        flt = gs.GatewayScanFilter(**fl)
        st, stcp, sr = bool(case["tunnelling_present"]), bool(case["tunnelling_present"]) and case["tunnelling_version"] >= 2, bool(case["routing_present"])
        T, R = bool(case["secured_tunnelling"]), bool(case["secured_routing"])
        f = case["flags"] if not case["none_filter"] else {k: False for k in case["flags"]}
        ref = (f["tunnelling"] and st and not T) or (f["tunnelling_tcp"] and stcp and not T) or (f["routing"] and sr and not R) or (f["secure_tunnelling"] and stcp and T) or (f["secure_routing"] and sr and R)
        if bool(flt.match(gw)) != bool(ref):
            return True, f"filter {fl} on gateway (tunnelling={st}, tcp={stcp}, routing={sr}, secured tunnelling={T}, routing={R}): match={flt.match(gw)}, reference={bool(ref)}"
        if bool(gw.tunnelling_requires_secure) != T or bool(gw.routing_requires_secure) != R:
            return True, f"secured families announced tunnelling={T} routing={R} but descriptor says {gw.tunnelling_requires_secure}/{gw.routing_requires_secure} (core version {case['core_version']}, DIB order {case['sec']})"
        started = []
        xk = XKNX()
        itf = ki.KNXIPInterface(xk, connection_config=ConnectionConfig(scan_filter=flt))

        def rec(name):
            async def f_(self, **kw):
                started.append(name)
            return f_

        class Scanner:
            def __init__(self, *a, **k):
                pass

            async def async_scan(self):
                if flt.match(gw):
                    yield gw
        import contextlib
        with contextlib.ExitStack() as es:
            es.enter_context(patch.object(ki, "GatewayScanner", Scanner))
            for nm in ("_start_tunnelling_tcp", "_start_tunnelling_udp", "_start_routing", "_start_secure_tunnelling_tcp", "_start_secure_routing"):
                es.enter_context(patch.object(ki.KNXIPInterface, nm, rec(nm), create=True))
            try:
                await itf._start_automatic(local_ip=None, keyring=None)
            except CommunicationError:
                pass
        if (T and any(s in ("_start_tunnelling_tcp", "_start_tunnelling_udp") for s in started)) or (R and "_start_routing" in started):
            return True, f"automatic connection started {started} for a gateway announcing secured tunnelling={T} routing={R}"
        return False, "ok"
    return asyncio.run(go())
