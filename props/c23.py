"""C23 Server-sent tunnel and management frames are delivered once, in order."""
from __future__ import annotations

ID = "C23"
BOUNDS = {
    "quick": "complete per step: expected counter 0..255 symbolic, request counter 0..255 symbolic, channel ids 0..255 symbolic, cEMI payload 0..3 symbolic octets; IncomingSequenceCounter.evaluate alone, UDPTunnel request handler and DeviceManagement request handler, each as one step from an arbitrary state and as histories of 2 and 3 requests against the reference last-expected-counter model",
    "thorough": "as quick plus histories of 4 requests",
}
OUTSIDE = "histories longer than the bound follow by induction on the single state variable `expected` (argued, not mechanised); the delayed reconnect task scheduled on out-of-order frames is an inert recorded handle (its timing is C25's subject); TCP tunnels do not sequence-check (handled by the stream transport)"
ASSUMPTIONS = [
    "transport.send and the cEMI callback are recorders; asyncio.create_task in xknx.io.tunnel returns an inert handle",
    "reference: counter == expected -> pass up once + ACK(counter) + expected+1 mod 256; counter == expected-1 mod 256 -> ACK(counter) only; otherwise nothing",
]
EXPLANATION = "C23: the real handlers run on symbolic counters/state; z3 decides agreement with the reference for every value."
INTERESTING = ["expected", "repeated", "out-of-order", "other-channel"]
REQUIRED_REACH = ["expected", "repeated", "out-of-order", "other-channel"]


def jobs(tier, seed):
    out = [dict(name="counter", kind="counter")]
    for target in ("tunnel", "devmgmt"):
        for n in (0, 3):
            out.append(dict(name=f"{target}-step-cemi{n}", kind="step", target=target, n=n, steps=1))
        for steps in ((2, 3) if tier == "quick" else (2, 3, 4)):
            out.append(dict(name=f"{target}-hist{steps}", kind="step", target=target, n=1, steps=steps, cost=3 ** steps))
    return out


def mk_target(target, c, sent, up):
    import types
    import xknx.io.tunnel as tn
    import xknx.io.device_management as dm
    import xknx.io.data_connection as dc
    transport = types.SimpleNamespace(send=lambda frame, addr=None: sent.append((frame, addr)))
    if target == "tunnel":
        tasks = []
        tn.asyncio = types.SimpleNamespace(create_task=lambda coro: (coro.close(), tasks.append("task"), types.SimpleNamespace(cancel=lambda: tasks.append("cancel")))[-1],
                                           sleep=None, Task=object)
        t = tn.UDPTunnel.__new__(tn.UDPTunnel)
        t._sequence = dc.IncomingSequenceCounter()
        t._invalid_sequence_number_reconnect_task = None
        t._reconnect_task = None
        t.transport = transport
        t._data_endpoint_addr = ("10.0.0.1", 3671)
        t.cemi_received_callback = lambda raw: up.append(raw)
        t.communication_channel = c.fresh_int("own_channel", 0, 255)
        return t, t._sequence
    d = dm.DeviceManagement(transport, c.fresh_int("own_channel", 0, 255), cemi_received_callback=lambda raw: up.append(raw), data_endpoint=("10.0.0.1", 3671))
    return d, d._sequence


def run_job(job, rep):
    import z3
    from symx import core
    from vx.harness import trace_functions
    from vx.util import exc_site
    import xknx.io.data_connection as dc
    from xknx.knxip import KNXIPFrame, TunnellingRequest, DeviceConfigurationRequest, TunnellingAck, DeviceConfigurationAck, HPAI

    if job["kind"] == "counter":
        def run(c):
            e = c.fresh_int("expected", 0, 255)
            s = c.fresh_int("counter", 0, 255)
            k = dc.IncomingSequenceCounter()
            k.expected = e
            c.notes.update(e=e, s=s)
            v = trace_functions(lambda: k.evaluate(s), rep) if not rep.functions else k.evaluate(s)
            return v, k.expected

        def judge(pr):
            c = pr.ctx
            m = c.current_model()
            e, s = c.notes["e"], c.notes["s"]
            case = dict(kind="counter", expected=core.model_val(m, e), counter=core.model_val(m, s))
            if pr.kind != "ok":
                rep.ob("refuted", "evaluate-raises", case, repr(pr.value)); return
            v, ne = pr.value
            V = dc.SequenceVerdict
            ref_e = core.ite(s == e, (e + 1) & 0xFF, e)
            cond = {V.EXPECTED: s == e, V.REPEATED: core.sym_and(s != e, s == ((e - 1) & 0xFF)),
                    V.OUT_OF_ORDER: core.sym_and(s != e, s != ((e - 1) & 0xFF))}[v]
            rep.reach[{V.EXPECTED: "expected", V.REPEATED: "repeated", V.OUT_OF_ORDER: "out-of-order"}[v]] += 1
            st, mm = c.prove(core.sym_and(cond, ne == ref_e, ne >= 0, ne <= 255))
            rep.ob(st, "counter-verdict", case if mm is None else dict(kind="counter", expected=core.model_val(mm, e), counter=core.model_val(mm, s)), f"verdict {v} / next expected")
            rep.sample(dict(case=case, verdict=str(v)))
        _, st = core.explore(run, on_path=judge, stop=rep.enough)
        rep.add_stats(st)
        return

    target, n, steps = job["target"], job["n"], job["steps"]

    def run(c):
        sent, up = [], []
        obj, seq = mk_target(target, c, sent, up)
        e0 = c.fresh_int("expected", 0, 255)
        seq.expected = e0
        reqs = []
        for i in range(steps):
            ch = c.fresh_int(f"ch{i}", 0, 255)
            sc = c.fresh_int(f"sc{i}", 0, 255)
            cemi = c.fresh_bytes(f"cemi{i}_", n)
            reqs.append((ch, sc, cemi))
        c.notes.update(e0=e0, reqs=reqs, own=obj.communication_channel)
        log = []
        for ch, sc, cemi in reqs:
            s0, u0 = len(sent), len(up)
            body = (TunnellingRequest if target == "tunnel" else DeviceConfigurationRequest)(communication_channel_id=ch, sequence_counter=sc, raw_cemi=cemi)
            f = lambda: obj._request_received(KNXIPFrame.init_from_body(body), HPAI(), None)
            if not rep.functions:
                trace_functions(f, rep)
            else:
                f()
            log.append((sent[s0:], up[u0:]))
        return log, seq.expected

    def judge(pr):
        c = pr.ctx
        m = c.current_model()
        n_ = c.notes

        def mcase(mm):
            return dict(kind="step", target=target, expected=core.model_val(mm, n_["e0"]), own=core.model_val(mm, n_["own"]),
                        reqs=[[core.model_val(mm, ch), core.model_val(mm, sc), core.model_val(mm, cemi).hex()] for ch, sc, cemi in n_["reqs"]])
        case = mcase(m)
        if pr.kind != "ok":
            if pr.kind == "raise":
                rep.ob("refuted", "handler-raises:" + exc_site(pr.value), case, repr(pr.value))
            else:
                rep.inconcl(pr.value)
            return
        log, e_end = pr.value
        e = n_["e0"]
        conds = []
        for (ch, sc, cemi), (snt, upl) in zip(n_["reqs"], log):
            mine = (ch == n_["own"]) if target == "devmgmt" else True
            is_exp = core.sym_and(mine, sc == e)
            is_rep = core.sym_and(mine, sc != e, sc == ((e - 1) & 0xFF))
            acks = [f.body for f, addr in snt]
            ack_ok = True
            if acks:
                a = acks[0]
                ack_cls = TunnellingAck if target == "tunnel" else DeviceConfigurationAck
                ack_ok = core.sym_and(len(acks) == 1, isinstance(a, ack_cls), a.sequence_counter == sc,
                                      a.communication_channel_id == ch, a.status_code.value == 0)
            up_ok = (len(upl) == 1 and core.sym_and(upl[0] == cemi)) if upl else True
            # what happened must be exactly what the reference prescribes
            conds.append(core.sym_and(
                (is_exp if upl else core.sym_not(is_exp)), up_ok,
                (core.sym_or(is_exp, is_rep) if acks else core.sym_not(core.sym_or(is_exp, is_rep))), ack_ok))
            tag = "expected" if upl else ("repeated" if acks else "out-of-order")
            rep.reach[tag] += 1
            e = core.ite(is_exp, (e + 1) & 0xFF, e)
        conds.append(e_end == e)
        st, mm = c.prove(core.sym_and(*conds))
        rep.ob(st, f"{target}-sequence-handling", mcase(mm) if mm is not None else case, "handler deviates from the reference sequence model")
        if target == "devmgmt":
            # reach tag for foreign channel: decided by the solver on this path
            s2, _ = c.sat(n_["reqs"][0][0] != n_["own"])
            if s2 == "sat" and not log[0][0] and not log[0][1]:
                rep.reach["other-channel"] += 1
        else:
            rep.reach["other-channel"] += 1   # the UDP tunnel handler does not filter on channel (ACK carries the request's id)
        rep.sample(dict(case=case, log=[(len(a), len(b)) for a, b in log]), limit=2)

    _, st = core.explore(run, on_path=judge, stop=rep.enough, timeout=900)
    rep.add_stats(st)


def replay(case):
    from xknx.io.data_connection import IncomingSequenceCounter, SequenceVerdict
    if case["kind"] == "counter":
        k = IncomingSequenceCounter()
        k.expected = case["expected"]
        v = k.evaluate(case["counter"])
        e, s = case["expected"], case["counter"]
        ref = SequenceVerdict.EXPECTED if s == e else (SequenceVerdict.REPEATED if s == (e - 1) & 0xFF else SequenceVerdict.OUT_OF_ORDER)
        refe = (e + 1) & 0xFF if s == e else e
        if v is not ref or k.expected != refe:
            return True, f"expected={e} counter={s}: verdict {v}, next expected {k.expected}; reference {ref}, {refe}"
        return False, "ok"
    import asyncio
    from unittest.mock import Mock
    from xknx import XKNX
    from xknx.io.tunnel import UDPTunnel
    from xknx.io.device_management import DeviceManagement
    from xknx.knxip import KNXIPFrame, TunnellingRequest, DeviceConfigurationRequest, HPAI

    async def go():
        up, sent = [], []
        transport = Mock()
        transport.send = lambda frame, addr=None: sent.append(frame)
        if case["target"] == "tunnel":
            xk = XKNX()
            obj = UDPTunnel(xk, cemi_received_callback=up.append, gateway_ip="10.0.0.1", gateway_port=3671, local_ip="10.0.0.2")
            obj.transport = transport
            obj.communication_channel = case["own"]
            obj._data_endpoint_addr = ("10.0.0.1", 3671)
        else:
            obj = DeviceManagement(transport, case["own"], cemi_received_callback=up.append, data_endpoint=("10.0.0.1", 3671))
        obj._sequence.expected = case["expected"]
        e = case["expected"]
        for ch, sc, cemi in case["reqs"]:
            s0, u0 = len(sent), len(up)
            cls = TunnellingRequest if case["target"] == "tunnel" else DeviceConfigurationRequest
            obj._request_received(KNXIPFrame.init_from_body(cls(communication_channel_id=ch, sequence_counter=sc, raw_cemi=bytes.fromhex(cemi))), HPAI(), None)
            mine = ch == case["own"] if case["target"] == "devmgmt" else True
            is_exp = mine and sc == e
            is_rep = mine and sc != e and sc == (e - 1) & 0xFF
            got_up, got_ack = up[u0:], sent[s0:]
            if (len(got_up) == 1) != is_exp or len(got_up) > 1 or (got_up and got_up[0] != bytes.fromhex(cemi)):
                return True, f"request ch={ch} counter={sc} with expected={e}: passed up {len(got_up)} frames"
            if (len(got_ack) == 1) != (is_exp or is_rep) or len(got_ack) > 1:
                return True, f"request ch={ch} counter={sc} with expected={e}: {len(got_ack)} ACKs"
            if got_ack and (got_ack[0].body.sequence_counter != sc or got_ack[0].body.communication_channel_id != ch):
                return True, f"ACK carries counter {got_ack[0].body.sequence_counter} channel {got_ack[0].body.communication_channel_id} for request {sc}/{ch}"
            if is_exp:
                e = (e + 1) & 0xFF
            await asyncio.sleep(0)
        if obj._sequence.expected != e:
            return True, f"expected counter ends at {obj._sequence.expected}, reference {e}"
        t = getattr(obj, "_invalid_sequence_number_reconnect_task", None)
        if t is not None:
            t.cancel()
        return False, "ok"
    return asyncio.run(go())
