"""C36 Registered tasks follow connection state and never run twice (partial)."""
from __future__ import annotations

ID = "C36"
BOUNDS = {
    "quick": "(a) every history of 4 operations out of {start_task(t), remove_task(t) for two Task objects (one restarting after reconnection, one not), connection state -> CONNECTED / CONNECTING / DISCONNECTED (through the real ConnectionManager), registry.stop()} on the real TaskRegistry/Task/ConnectionManager code with asyncio.create_task replaced by inert handles: after every operation the number of live (created and not cancelled) handles per task equals the reference model; (b) the task body Task._start_internal stepped (symaio) for every option combination wait_before_start {0, 2}, wait_for_connection, restart_after_reconnect, repeat_after {None, 5, 0}, connected or not, sync or async target, two iterations",
    "thorough": "as quick with histories of 5 operations",
}
OUTSIDE = "the event loop: delivery of cancellation into a running coroutine, a task finishing on its own (handles never complete, so 'replaces the running instance' is checked as cancel + create), TaskRegistry.background and block_till_done; starting a restart-after-reconnect task explicitly while disconnected (the statement's 'not running while disconnected' is checked for connection-loss events)"
ASSUMPTIONS = ["reference model per task: registered/live flags; start: cancel if registered, then one new instance; remove: cancel and unregister; connection lost: restarting tasks are cancelled; CONNECTED: restarting registered tasks get exactly one new instance (old one cancelled); stop: everything cancelled, registry empty and deaf to state changes"]
EXPLANATION = "C36: the real registry and connection manager run every bounded history (each choice a solver-decided fork); asyncio tasks are inert handles tagged with their owner, so 'running' is observable as a handle that was created and not cancelled."
INTERESTING = ["history", "body"]
REQUIRED_REACH = ["history", "body"]

OPS = ["start0", "start1", "remove0", "remove1", "CONNECTED", "CONNECTING", "DISCONNECTED", "stop"]


def jobs(tier, seed):
    k = 4 if tier == "quick" else 5
    out = [dict(name=f"history-first-{op}", kind="history", first=i, k=k, cost=10) for i, op in enumerate(OPS)]
    out.append(dict(name="task-body", kind="body", cost=5))
    return out


def setup(log, handles):
    import types
    from symx import aio
    import xknx.core.task_registry as trm
    from xknx import XKNX

    def create_task(coro, name=None):
        owner = coro.cr_frame.f_locals.get("self") if getattr(coro, "cr_frame", None) is not None else None
        h = aio.InertTask(log, coro)
        h.owner = owner
        handles.append(h)
        return h
    trm.asyncio = aio.asyncio_shim(log, extra=dict(create_task=create_task, iscoroutine=__import__("asyncio").iscoroutine))
    trm.logger = types.SimpleNamespace(debug=lambda *a, **k: None, warning=lambda *a, **k: None, info=lambda *a, **k: None)
    xk = XKNX()
    return xk, trm


def apply_op(xk, tasks, op):
    from xknx.core import XknxConnectionState
    if op.startswith("start"):
        xk.task_registry.start_task(tasks[int(op[-1])])
    elif op.startswith("remove"):
        xk.task_registry.remove_task(tasks[int(op[-1])])
    elif op == "stop":
        xk.task_registry.stop()
    else:
        xk.connection_manager.connection_state_changed(XknxConnectionState[op])


def reference(history):
    """Replays the history on the reference model; returns the expected (live0, live1) after each operation."""
    reg = [False, False]
    live = [False, False]
    restart = [True, False]
    state = "DISCONNECTED"
    listening = True
    out = []
    for op in history:
        if op.startswith("start"):
            i = int(op[-1])
            reg[i], live[i] = True, True
        elif op.startswith("remove"):
            i = int(op[-1])
            if reg[i]:
                reg[i], live[i] = False, False
        elif op == "stop":
            reg, live, listening = [False, False], [False, False], False
        else:
            if op != state:
                state = op
                if listening:
                    for i in (0, 1):
                        if reg[i] and restart[i]:
                            live[i] = (op == "CONNECTED")
        out.append(tuple(live))
    return out


def run_job(job, rep):
    import types
    from symx import aio, core
    from vx.harness import trace_functions
    from xknx.core import Task

    if job["kind"] == "history":
        K = job["k"]

        def run(c):
            log, handles = [], []
            xk, trm = setup(log, handles)
            xk.task_registry.start()
            tasks = [Task(name="restarting", target=lambda: None, restart_after_reconnect=True), Task(name="plain", target=lambda: None)]
            history = [OPS[job["first"]]] + [OPS[core.concretize(c.fresh_int(f"op{i}", 0, len(OPS) - 1))] for i in range(1, K)]
            c.notes["history"] = history
            seen = []
            for op in history:
                f = lambda: apply_op(xk, tasks, op)
                trace_functions(f, rep) if not rep.functions else f()
                seen.append(tuple(sum(1 for h in handles if h.owner is t and not h.cancelled_) for t in tasks))
            return seen, len(xk.task_registry.tasks), [t._task for t in tasks]

        def judge(pr):
            c = pr.ctx
            case = dict(kind="history", history=c.notes.get("history"))
            if pr.kind != "ok":
                rep.ob("refuted", f"history-raises:{type(pr.value).__name__}", case, repr(pr.value)); return
            seen, nreg, cur = pr.value
            rep.reach["history"] += 1
            want = [tuple(int(x) for x in w) for w in reference(case["history"])]
            if seen != want:
                i = next(i for i, (a, b) in enumerate(zip(seen, want)) if a != b)
                rep.ob("refuted", f"live-instances:{case['history'][i].rstrip('01')}", case, f"after operation {i} ({case['history'][i]}): live instances (restarting, plain) = {seen[i]}, expected {want[i]}"); return
            rep.obligations += 1; rep.discharged += 1
            rep.sample(dict(witness=case, live=seen), limit=1)
        _, st = core.explore(run, on_path=judge, stop=rep.enough, timeout=600)
        rep.add_stats(st)
        return

    def run(c):
        log, handles = [], []
        xk, trm = setup(log, handles)
        pick = lambda name, opts: opts[core.concretize(c.fresh_int(name, 0, len(opts) - 1))]
        wait = pick("wait", [0, 2])
        wfc = pick("wfc", [False, True])
        rar = pick("rar", [False, True])
        rep_after = pick("rep", [None, 5, 0])
        connected = pick("conn", [False, True])
        is_async = pick("async", [False, True])
        calls = []

        async def atarget():
            calls.append(len(log))
            log.append(("target",))

        def starget():
            calls.append(len(log))
            log.append(("target",))
        t = Task(name="t", target=atarget if is_async else starget, restart_after_reconnect=rar, wait_before_start=wait, wait_for_connection=wfc, repeat_after=rep_after)
        t.xknx = xk
        ev = types.SimpleNamespace(is_set=lambda: connected, wait=lambda: aio.Ready(hook=lambda: log.append(("connected.wait",))))
        xk.connection_manager.connected = ev
        budget = {"n": 0}
        real_sleep = trm.asyncio.sleep

        def sleep(d):
            def hook():
                log.append(("sleep", d))
                budget["n"] += 1
                if budget["n"] > 4:
                    raise aio.Stop()
            return aio.Ready(hook=hook)
        trm.asyncio.sleep = sleep
        c.notes.update(opts=dict(wait=wait, wfc=wfc, rar=rar, rep=rep_after, connected=connected, is_async=is_async))
        f = lambda: aio.drive(t._start_internal())
        r = trace_functions(f, rep) if not rep.functions else f()
        return r, log

    def judge(pr):
        c = pr.ctx
        case = dict(kind="body", **c.notes.get("opts", {}))
        if pr.kind != "ok":
            rep.ob("refuted", f"body-raises:{type(pr.value).__name__}", case, repr(pr.value)); return
        (how, _), log = pr.value
        rep.reach["body"] += 1
        o = c.notes["opts"]
        ev = [e for e in log if e[0] in ("sleep", "connected.wait", "target")]
        # reference sequence for one iteration
        one = []
        if o["wait"]:
            one.append(("sleep", o["wait"]))
        gave_up = o["wfc"] and not o["connected"] and o["rar"]
        if o["wfc"] and not o["connected"] and not o["rar"]:
            one.append(("connected.wait",))
        if not gave_up:
            one.append(("target",))
        if gave_up:
            want, end = one, "returned"
        elif o["rep"] is None:
            want, end = one, "returned"          # repeat_after 0 is a valid interval ("again at once"), only None ends the loop
        else:
            want, end = None, "stopped"
        if want is None:
            # repeating task: the recorded prefix must be iterations of `one` separated by sleep(repeat_after)
            cycle = one + [("sleep", o["rep"])]
            ok = all(e == cycle[i % len(cycle)] for i, e in enumerate(ev)) and how == "stopped" and sum(1 for e in ev if e[0] == "target") >= 2
        else:
            ok = ev == want and how == end
        rep.ob("proved" if ok else "refuted", "task-body-sequence", case, f"{how}: {ev[:8]}")
        rep.sample(dict(witness=case), limit=1)
    _, st = core.explore(run, on_path=judge, stop=rep.enough, timeout=300)
    rep.add_stats(st)


def replay(case):
    """Concrete re-run under the real event loop."""
    import asyncio
    from xknx import XKNX
    from xknx.core import Task

    async def go():
        xk = XKNX()
        if case["kind"] == "history":
            xk.task_registry.start()
            started = {0: [], 1: []}

            def mk(i):
                async def target():
                    await asyncio.sleep(3600)
                return target
            tasks = [Task(name="restarting", target=mk(0), restart_after_reconnect=True), Task(name="plain", target=mk(1))]
            want = reference(case["history"])
            all_handles = {0: [], 1: []}
            for step, op in enumerate(case["history"]):
                try:
                    apply_op(xk, tasks, op)
                except Exception as e:  # noqa: BLE001
                    return True, f"{case}: operation {step} raised {e!r}"
                for i, t in enumerate(tasks):
                    if t._task is not None and t._task not in all_handles[i]:
                        all_handles[i].append(t._task)
                await asyncio.sleep(0)
                await asyncio.sleep(0)
                live = tuple(sum(1 for h in all_handles[i] if not h.done()) for i in (0, 1))
                if live != tuple(int(x) for x in want[step]):
                    for hs in all_handles.values():
                        for h in hs:
                            h.cancel()
                    return True, f"{case}: after operation {step} ({op}) live instances (restarting, plain) = {live}, expected {want[step]}"
            for hs in all_handles.values():
                for h in hs:
                    h.cancel()
            return False, "ok"
        # body
        import xknx.core.task_registry as trm
        log = []
        real_sleep = asyncio.sleep

        async def fake_sleep(d):
            log.append(("sleep", d))
            if len([e for e in log if e[0] == "sleep"]) > 4:
                raise asyncio.CancelledError()
            await real_sleep(0)
        saved = trm.asyncio.sleep
        trm.asyncio.sleep = fake_sleep
        try:
            async def atarget():
                log.append(("target",))

            def starget():
                log.append(("target",))
            t = Task(name="t", target=atarget if case["is_async"] else starget, restart_after_reconnect=case["rar"], wait_before_start=case["wait"],
                     wait_for_connection=case["wfc"], repeat_after=case["rep"])
            t.xknx = xk
            if case["connected"]:
                xk.connection_manager.connected.set()
            elif case["wfc"] and not case["rar"]:
                asyncio.get_running_loop().call_later(0.01, xk.connection_manager.connected.set)
            try:
                await asyncio.wait_for(t._start_internal(), 2)
            except (asyncio.CancelledError, asyncio.TimeoutError):
                pass
        finally:
            trm.asyncio.sleep = saved
        targets = sum(1 for e in log if e[0] == "target")
        gave_up = case["wfc"] and not case["connected"] and case["rar"]
        first_sleep_ok = (not case["wait"]) or (log and log[0] == ("sleep", case["wait"]))
        want_targets = 0 if gave_up else (1 if case["rep"] is None else 2)
        bad = not first_sleep_ok or (targets < want_targets) or (case["rep"] is None and targets != want_targets)
        return bad, f"{case}: {log[:8]}"
    return asyncio.run(go())
