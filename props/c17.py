"""C17 Data Secure enforces sequence-number freshness in both directions."""
from __future__ import annotations

ID = "C17"
BOUNDS = {
    "quick": "one inductive step from an arbitrary state: receiver table {known sender a: last valid counter 0..2^48-1 symbolic}; incoming secured frame with symbolic source (any 16-bit address), 48-bit sequence number, SCF, ciphertext (n = 2, 5) and MAC octets (so both 'verifies' and 'fails verification' are explored); two-frame histories from the same state; sending side: get_sequence_number from an arbitrary counter 1..2^48+2, two consecutive calls",
    "thorough": "as quick with n = 2..8 and three-frame histories",
}
OUTSIDE = "histories longer than the bound follow by induction: the per-sender last-valid counter and the sending counter are the whole state (argued, not mechanised); several known senders (the table is a dict; entries of other senders are untouched by construction of dict item assignment); AES strength"
ASSUMPTIONS = [
    "AES-128 = uninterpreted function E; 'verification fails/succeeds' are both feasible for symbolic MAC octets",
    "cut: the decrypted inner APDU is kept as octets (decoding is C04/C18's subject)",
]
EXPLANATION = ("C17: DataSecure.received_cemi/_received_secure_cemi/check_sequence_number and get_sequence_number run from symbolic state; z3 decides: delivered => "
               "known sender and sequence number > last valid and table updated to it; not delivered => table unchanged; outgoing numbers strictly increasing, <= 2^48-1, overflow raises.")
INTERESTING = ["delivered", "rejected", "sent", "overflow"]
REQUIRED_REACH = ["delivered", "rejected", "sent", "overflow"]


def jobs(tier, seed):
    out = []
    for n in ((2, 5) if tier == "quick" else range(2, 9)):
        out.append(dict(name=f"recv-n{n}", kind="recv", n=n, frames=1))
    out.append(dict(name="recv-hist2", kind="recv", n=2, frames=2, cost=50))
    if tier != "quick":
        out.append(dict(name="recv-hist3", kind="recv", n=2, frames=3, cost=500))
    out.append(dict(name="send", kind="send"))
    return out


def run_job(job, rep):
    import z3
    from symx import core
    from vx.harness import trace_functions
    from vx.util import exc_site
    import props.ds_common as dc
    dc.setup()
    import xknx.secure.data_secure as ds
    import xknx.secure.data_secure_asdu as asdu
    import xknx.cemi.cemi_frame as cf
    import xknx.telegram.tpci as tp
    from xknx.telegram.apci import SecureAPDU
    from xknx.exceptions import DataSecureError
    from xknx.telegram import GroupAddress, IndividualAddress

    if job["kind"] == "send":
        def run(c):
            s0 = c.fresh_int("counter", 1, (1 << 48) + 2)
            d = ds.DataSecure(group_key_table={}, individual_address_table={}, last_sequence_number_sending=1)
            d._sequence_number_sending = s0
            c.notes["s0"] = s0
            res = []
            for _ in range(2):
                try:
                    res.append(("ok", d.get_sequence_number(), d._sequence_number_sending))
                except DataSecureError:
                    res.append(("overflow", None, d._sequence_number_sending))
            return res

        def judge(pr):
            c = pr.ctx
            s0 = c.notes["s0"]
            m = c.current_model()
            case = dict(kind="send", counter=core.model_val(m, s0))
            if pr.kind != "ok":
                rep.ob("refuted", "get_sequence_number-raises", case, repr(pr.value)); return
            cur = s0
            conds = []
            for tag, v, after in pr.value:
                if tag == "ok":
                    rep.reach["sent"] += 1
                    conds += [v == cur, v <= (1 << 48) - 1, v >= 1, after == cur + 1]
                    cur = cur + 1
                else:
                    rep.reach["overflow"] += 1
                    conds += [cur > (1 << 48) - 1, after == cur]
            st, mm = c.prove(core.sym_and(*conds))
            rep.ob(st, "sending-sequence", case if mm is None else dict(kind="send", counter=core.model_val(mm, s0)), "outgoing sequence numbers not strictly increasing / beyond 48 bit / overflow not raised")
            rep.sample(dict(case=case, results=[t for t, _, _ in pr.value]))
        _, st = core.explore(run, on_path=judge, stop=rep.enough)
        rep.add_stats(st)
        return

    class InnerAPDU:
        def __init__(self, raw):
            self.raw = raw

        @classmethod
        def from_knx(cls, raw):
            return cls(raw)
    ds.APCI = InnerAPDU
    n, frames = job["n"], job["frames"]
    GA = GroupAddress(0x0901)

    def run(c):
        key = c.fresh_bytes("k", 16)
        a = c.fresh_int("known", 0, 65535)
        last = c.fresh_int("last", 0, (1 << 48) - 1)
        known = IndividualAddress(a)
        d = ds.DataSecure(group_key_table={GA: key}, individual_address_table={known: last}, last_sequence_number_sending=1)
        fr = []
        for i in range(frames):
            src = c.fresh_int(f"src{i}", 0, 65535)
            seq = c.fresh_bytes(f"seq{i}_", 6)
            alg = core.concretize(c.fresh_int(f"alg{i}", 0, 1))
            sec = c.fresh_bytes(f"c{i}_", n)
            mac = c.fresh_bytes(f"mac{i}_", 4)
            fr.append(dict(src=src, seq=seq, alg=alg, sec=sec, mac=mac))
        c.notes.update(key=key, a=a, last=last, fr=fr)
        log = []
        for f in fr:
            scf = asdu.SecurityControlField(tool_access=False, algorithm=asdu.SecurityAlgorithmIdentifier(f["alg"]), system_broadcast=False, service=asdu.SecurityALService.S_A_DATA)
            cemi = cf.CEMILData(src_addr=IndividualAddress(f["src"]), dst_addr=GA, tpci=tp.TDataGroup(),
                                payload=SecureAPDU(scf=scf, secured_data=asdu.SecureData(sequence_number_bytes=f["seq"], secured_apdu=f["sec"], message_authentication_code=f["mac"])))
            before = d._individual_address_table[known]
            go = lambda: d.received_cemi(cemi)
            try:
                out = trace_functions(go, rep) if not rep.functions else go()
                log.append(("delivered", before, d._individual_address_table[known], len(d._individual_address_table)))
            except DataSecureError as e:
                log.append(("rejected", before, d._individual_address_table[known], len(d._individual_address_table)))
        return log

    def judge(pr):
        c = pr.ctx
        if pr.kind in ("unsupported", "timeout"):
            rep.inconcl(f"{job['name']}: {pr.value}"); return
        n_ = c.notes
        m = c.current_model()

        def mcase(mm):
            return dict(kind="recv", key=core.model_val(mm, n_["key"]).hex(), known=core.model_val(mm, n_["a"]), last=core.model_val(mm, n_["last"]),
                        frames=[dict(src=core.model_val(mm, f["src"]), seq=core.model_val(mm, f["seq"]).hex(), alg=f["alg"], sec=core.model_val(mm, f["sec"]).hex(),
                                     mac=core.model_val(mm, f["mac"]).hex()) for f in n_["fr"]])
        case = mcase(m)
        if pr.kind == "raise":
            rep.ob("refuted", "receive-raises:" + exc_site(pr.value), case, repr(pr.value)); return
        cur = n_["last"]
        conds = []
        for f, (tag, before, after, size) in zip(n_["fr"], pr.value):
            q = core.int_from_bytes(f["seq"])
            conds.append(before == cur)
            conds.append(size == 1)
            if tag == "delivered":
                rep.reach["delivered"] += 1
                conds += [f["src"] == n_["a"], q > cur, after == q]
                cur = q
            else:
                rep.reach["rejected"] += 1
                conds.append(after == cur)
        st, mm = c.prove(core.sym_and(*conds))
        rep.ob(st, "freshness-step", mcase(mm) if mm is not None else case, "delivery/rejection does not follow the last-valid-counter model")
        rep.sample(dict(witness=case, outcome=[t for t, *_ in pr.value]), limit=2)

    _, st = core.explore(run, on_path=judge, stop=rep.enough, timeout=900)
    rep.add_stats(st)


def replay(case):
    import props.ds_common as dc
    import xknx.secure.data_secure as ds
    import xknx.secure.data_secure_asdu as asdu
    import xknx.cemi.cemi_frame as cf
    import xknx.telegram.tpci as tp
    from xknx.telegram.apci import SecureAPDU
    from xknx.exceptions import DataSecureError
    from xknx.telegram import GroupAddress, IndividualAddress
    if case["kind"] == "send":
        d = ds.DataSecure(group_key_table={}, individual_address_table={}, last_sequence_number_sending=1)
        d._sequence_number_sending = cur = case["counter"]
        for _ in range(2):
            try:
                v = d.get_sequence_number()
            except DataSecureError:
                if cur <= (1 << 48) - 1:
                    return True, f"overflow raised at {cur}"
                continue
            if v != cur or v > (1 << 48) - 1 or d._sequence_number_sending != cur + 1:
                return True, f"get_sequence_number at counter {cur} returned {v}, counter now {d._sequence_number_sending}"
            cur += 1
        return False, "ok"
    GA = GroupAddress(0x0901)
    key = bytes.fromhex(case["key"])
    known = IndividualAddress(case["known"])
    d = ds.DataSecure(group_key_table={GA: key}, individual_address_table={known: case["last"]}, last_sequence_number_sending=1)
    cur = case["last"]
    for f in case["frames"]:
        alg = asdu.SecurityAlgorithmIdentifier(f["alg"])
        scf = asdu.SecurityControlField(tool_access=False, algorithm=alg, system_broadcast=False, service=asdu.SecurityALService.S_A_DATA)
        src = IndividualAddress(f["src"])
        q = int.from_bytes(bytes.fromhex(f["seq"]), "big")
        # two variants: the octets of the model (fails real verification almost surely) and a genuinely secured frame
        plain = (bytes([0x00, 0x80]) + bytes(range(1, 30)))[:max(2, len(bytes.fromhex(f["sec"])))]
        genuine = asdu.SecureData.init_from_plain_apdu(key=key, apdu=plain, scf=scf, sequence_number=q, address_fields_raw=src.to_knx() + GA.to_knx(),
                                                       address_type=cf.CEMIAddressType.GROUP, frame_format=cf.CEMIFrameFormat.STANDARD, tpci=tp.TDataGroup())
        forged = asdu.SecureData(sequence_number_bytes=bytes.fromhex(f["seq"]), secured_apdu=bytes.fromhex(f["sec"]), message_authentication_code=bytes.fromhex(f["mac"]))
        for label, sd in (("forged", forged), ("genuine", genuine)):
            d2 = ds.DataSecure(group_key_table={GA: key}, individual_address_table={known: cur}, last_sequence_number_sending=1)
            cemi = cf.CEMILData(src_addr=src, dst_addr=GA, tpci=tp.TDataGroup(), payload=SecureAPDU(scf=scf, secured_data=sd))
            try:
                d2.received_cemi(cemi)
                delivered = True
            except DataSecureError:
                delivered = False
            after = d2._individual_address_table[known]
            if delivered and not (src == known and q > cur and after == q):
                return True, f"{label} frame from {src} seq {q} delivered with last valid {cur} for {known}; table now {after}"
            if not delivered and after != cur:
                return True, f"{label} frame from {src} seq {q} rejected but the counter of {known} moved {cur} -> {after}"
            if label == "genuine" and not delivered and src == known and q > cur:
                return True, f"genuine fresh frame seq {q} > {cur} rejected"
        if src == known and q > cur:
            cur = q
    return False, "ok"
