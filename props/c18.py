"""C18 Secured group addresses never take plain data, and bad frames never crash."""
from __future__ import annotations

ID = "C18"
BOUNDS = {
    "quick": "(a) plain L_Data.ind group frames (GroupValueWrite/Response/Read, 1 data octet) with symbolic source, destination and control octets against a table with one keyed group address, through CEMIHandler.handle_raw_cemi; (b) outgoing telegrams with symbolic destination and every group TPCI through CEMIHandler.send_telegram (driven up to the hand-over to the interface); (c) genuinely authenticated secured frames (both algorithms) whose inner APDU is 0..6 arbitrary symbolic octets, through handle_raw_cemi",
    "thorough": "as quick with inner APDUs of 0..12 octets",
}
OUTSIDE = "AES strength; device/callback processing after the telegram queue (C33/C34); the confirmation wait of send_telegram (C14)"
ASSUMPTIONS = [
    "AES-128 = uninterpreted function E; (c) secures the arbitrary inner APDU with xknx's own SecureData.init_from_plain_apdu, i.e. the environment grants authenticity",
    "xknx.telegrams / telegram_queue / management / knxip_interface are recorders; the sender in (c) is known to the receiver with an older counter",
]
EXPLANATION = ("C18: CEMIHandler.handle_raw_cemi -> handle_cemi_frame -> DataSecure.received_cemi -> telegram_received / handle_data_secure_key_issue, and "
               "send_telegram -> DataSecure.outgoing_cemi run symbolically; z3 decides which recorder fires on every path.")
INTERESTING = ["plain-to-keyed", "plain-to-unkeyed", "outgoing-keyed", "outgoing-unkeyed", "authenticated-inner"]
REQUIRED_REACH = ["plain-to-keyed", "plain-to-unkeyed", "outgoing-keyed", "outgoing-unkeyed", "authenticated-inner"]
KEYED = 0x0A05


class StopHere(BaseException):
    pass


def jobs(tier, seed):
    out = [dict(name="plain", kind="plain"), dict(name="outgoing", kind="outgoing")]
    for n in (range(0, 7) if tier == "quick" else range(0, 13)):
        for alg in (0, 1):
            out.append(dict(name=f"inner-n{n}-alg{alg}", kind="inner", n=n, alg=alg, cost=n * n + 3))
    return out


def run_job(job, rep):
    import types
    import z3
    from symx import core, shims
    from vx.harness import trace_functions
    from vx.util import exc_site
    import props.ds_common as dc
    dc.setup()
    import xknx.secure.data_secure as ds
    import xknx.secure.data_secure_asdu as asdu
    import xknx.cemi.cemi_frame as cf
    import xknx.cemi.cemi_handler as ch
    import xknx.telegram.tpci as tp
    import xknx.telegram.apci as apci
    from xknx.dpt import DPTArray
    from xknx.telegram import GroupAddress, IndividualAddress, Telegram

    GA = GroupAddress(KEYED)
    kind = job["kind"]

    def mk(c, sender_raw=None, last=0):
        key = c.fresh_bytes("k", 16)
        table = {IndividualAddress(sender_raw): last} if sender_raw is not None else {}
        d = ds.DataSecure(group_key_table={GA: key}, individual_address_table=table, last_sequence_number_sending=c.fresh_int("S", 1, (1 << 48) - 1))
        rec = []
        h, xk = dc.make_handler(rec, d)
        return key, d, rec, h, xk

    if kind == "plain":
        def run(c):
            key, d, rec, h, xk = mk(c)
            src, dst = c.fresh_bytes("src", 2), c.fresh_bytes("dst", 2)
            ctrl1 = c.fresh_int("ctrl1", 0, 255)
            svc = core.concretize(c.fresh_int("svc", 0, 2))
            ap = {0: [0x00, 0x80, c.fresh_int("d", 0, 255)], 1: [0x00, 0x40, c.fresh_int("d", 0, 255)], 2: [0x00, 0x00]}[svc]
            raw = core.SymBytes([0x29, 0x00, ctrl1, 0xE0] + list(src) + list(dst) + [len(ap) - 1] + ap)
            c.notes.update(raw=raw, dst=dst)
            f = lambda: h.handle_raw_cemi(raw)
            trace_functions(f, rep) if not rep.functions else f()
            return rec

        def judge(pr):
            c = pr.ctx
            if pr.kind in ("unsupported", "timeout"):
                rep.inconcl(pr.value); return
            m = c.current_model()
            raw = c.notes["raw"]
            case = dict(kind="plain", raw=raw.concrete(m).hex())
            if pr.kind == "raise":
                rep.ob("refuted", "receive-raises:" + exc_site(pr.value), case, repr(pr.value)); return
            rec = pr.value
            kinds = [e[0] for e in rec]
            dstv = core.int_from_bytes(c.notes["dst"])
            keyed = dstv == KEYED
            q, ki = kinds.count("queue"), kinds.count("key_issue")
            if "logger.exception" in kinds:
                rep.ob("refuted", "last-resort-guard", case, "unexpected exception logged"); return
            if q:
                rep.reach["plain-to-unkeyed"] += 1
                st, mm = c.prove(core.sym_and(core.sym_not(keyed), q == 1, ki == 0))
                rep.ob(st, "plain-data-delivered-to-keyed-address", case if mm is None else dict(kind="plain", raw=raw.concrete(mm).hex()), "plain frame to a keyed group address reached the telegram queue")
            elif ki:
                rep.reach["plain-to-keyed"] += 1
                st, mm = c.prove(core.sym_and(keyed, ki == 1))
                rep.ob(st, "key-issue-for-unkeyed-address", case if mm is None else dict(kind="plain", raw=raw.concrete(mm).hex()), "key issue reported for an unkeyed address / more than once")
            else:
                # neither queued nor reported: only a broadcast (destination 0/0/0), which goes to management
                st, mm = c.prove(core.sym_and(dstv == 0, kinds.count("management") == 1))
                rep.ob(st, "plain-frame-vanished", case if mm is None else dict(kind="plain", raw=raw.concrete(mm).hex()), "group indication neither queued nor reported")
            rep.sample(dict(witness=case, recorders=kinds), limit=2)

        _, st = core.explore(run, on_path=judge, stop=rep.enough, timeout=600)
        rep.add_stats(st)
        return

    if kind == "outgoing":
        for tname in ("TDataGroup", "TDataTagGroup", "TDataBroadcast"):
            def run(c):
                key, d, rec, h, xk = mk(c)
                sent = []

                async def send_cemi(cemi):
                    sent.append(cemi)
                    raise StopHere()
                xk.knxip_interface = types.SimpleNamespace(send_cemi=send_cemi)
                dst = 0 if tname == "TDataBroadcast" else c.fresh_int("dst", 1, 65535)
                tg = Telegram(destination_address=GroupAddress(dst), payload=apci.GroupValueWrite(DPTArray((c.fresh_int("d", 0, 255),))),
                              source_address=IndividualAddress(c.fresh_int("src", 0, 65535)), tpci=getattr(tp, tname)())
                c.notes.update(dst=dst)
                coro = h.send_telegram(tg)

                def drive():
                    try:
                        coro.send(None)
                    except StopHere:
                        return
                    raise AssertionError("send_telegram did not hand the frame to the interface")
                trace_functions(drive, rep) if not rep.functions else drive()
                return sent, tg

            def judge(pr):
                c = pr.ctx
                if pr.kind in ("unsupported", "timeout"):
                    rep.inconcl(pr.value); return
                m = c.current_model()
                dst = c.notes["dst"]
                case = dict(kind="outgoing", tpci=tname, dst=core.model_val(m, dst))
                if pr.kind == "raise":
                    rep.ob("refuted", "send-raises:" + exc_site(pr.value), case, repr(pr.value)); return
                sent, tg = pr.value
                secured = isinstance(sent[0].data.payload, apci.SecureAPDU)
                rep.reach["outgoing-keyed" if secured else "outgoing-unkeyed"] += 1
                keyed = dst == KEYED
                st, mm = c.prove(core.sym_and(keyed if secured else core.sym_not(keyed), tg.data_secure is secured, len(sent) == 1))
                rep.ob(st, f"outgoing-plain-to-keyed-address:{tname}", case if mm is None else dict(kind="outgoing", tpci=tname, dst=core.model_val(mm, dst)), "telegram to a keyed group address sent unsecured (or unkeyed one secured)")
                rep.sample(dict(witness=case, secured=secured), limit=3)

            _, st = core.explore(run, on_path=judge, stop=rep.enough, timeout=600)
            rep.add_stats(st)
        return

    n, alg = job["n"], asdu.SecurityAlgorithmIdentifier(job["alg"])

    def run(c):
        src = c.fresh_int("src", 0, 65535)
        last = c.fresh_int("last", 0, (1 << 48) - 2)
        key, d, rec, h, xk = mk(c, src, last)
        seq = c.fresh_int("seq", 1, (1 << 48) - 1)
        c.add(seq > last)
        inner = c.fresh_bytes("in", n)
        scf = asdu.SecurityControlField(tool_access=False, algorithm=alg, system_broadcast=False, service=asdu.SecurityALService.S_A_DATA)
        sa = IndividualAddress(src)
        sd = asdu.SecureData.init_from_plain_apdu(key=key, apdu=inner, scf=scf, sequence_number=seq, address_fields_raw=sa.to_knx() + GA.to_knx(),
                                                  address_type=cf.CEMIAddressType.GROUP, frame_format=cf.CEMIFrameFormat.STANDARD, tpci=tp.TDataGroup())
        frame = cf.CEMIFrame(code=cf.CEMIMessageCode.L_DATA_IND, data=cf.CEMILData(src_addr=sa, dst_addr=GA, tpci=tp.TDataGroup(), payload=apci.SecureAPDU(scf=scf, secured_data=sd)))
        raw = shims.bytes_shim(frame.to_knx())
        c.notes.update(key=key, src=src, last=last, seq=seq, inner=inner)
        f = lambda: h.handle_raw_cemi(raw)
        trace_functions(f, rep) if not rep.functions else f()
        return rec

    def judge(pr):
        c = pr.ctx
        if pr.kind in ("unsupported", "timeout"):
            rep.inconcl(f"{job['name']}: {pr.value}"); return
        n_ = c.notes
        m = c.current_model()
        case = dict(kind="inner", alg=job["alg"], key=core.model_val(m, n_["key"]).hex(), src=core.model_val(m, n_["src"]), last=core.model_val(m, n_["last"]),
                    seq=core.model_val(m, n_["seq"]), inner=core.model_val(m, n_["inner"]).hex())
        rep.reach["authenticated-inner"] += 1
        if pr.kind == "raise":
            rep.ob("refuted", "authenticated-malformed-inner-apdu-raises:" + type(pr.value).__name__, case, repr(pr.value)); return
        kinds = [e[0] for e in pr.value]
        if "logger.exception" in kinds:
            rep.ob("refuted", "last-resort-guard", case, "unexpected exception logged"); return
        rep.obligations += 1; rep.discharged += 1
        rep.sample(dict(witness=case, recorders=kinds), limit=1)

    _, st = core.explore(run, on_path=judge, stop=rep.enough, timeout=900)
    rep.add_stats(st)


def replay(case):
    import asyncio
    from unittest.mock import AsyncMock, Mock
    from xknx import XKNX
    import xknx.secure.data_secure as ds
    import xknx.secure.data_secure_asdu as asdu
    import xknx.cemi.cemi_frame as cf
    import xknx.telegram.tpci as tp
    import xknx.telegram.apci as apci
    from xknx.dpt import DPTArray
    from xknx.telegram import GroupAddress, IndividualAddress, Telegram
    GA = GroupAddress(KEYED)

    async def go():
        xk = XKNX()
        key = bytes.fromhex(case.get("key", "00" * 16))
        table = {IndividualAddress(case["src"]): case["last"]} if case["kind"] == "inner" else {}
        xk.cemi_handler.data_secure = ds.DataSecure(group_key_table={GA: key}, individual_address_table=table, last_sequence_number_sending=5)
        queued, issues = [], []
        xk.telegrams = Mock()
        xk.telegrams.put_nowait = queued.append
        xk.telegram_queue = Mock()
        xk.telegram_queue.received_data_secure_group_key_issue = issues.append
        xk.management = Mock()
        if case["kind"] == "plain":
            raw = bytes.fromhex(case["raw"])
            xk.cemi_handler.handle_raw_cemi(raw)
            keyed = raw[6:8] == GA.to_knx()
            if raw[6:8] == b"\x00\x00":
                return False, "broadcast"
            if keyed and queued:
                return True, "plain frame to keyed group address queued as telegram"
            if keyed and len(issues) != 1:
                return True, f"key issue callbacks: {len(issues)}"
            if not keyed and (len(queued) != 1 or issues):
                return True, f"plain frame to unkeyed address: queued {len(queued)}, issues {len(issues)}"
            return False, "ok"
        if case["kind"] == "outgoing":
            sent = []

            async def send_cemi(cemi):
                sent.append(cemi)
                raise RuntimeError("stop")
            xk.knxip_interface = Mock()
            xk.knxip_interface.send_cemi = send_cemi
            tg = Telegram(destination_address=GroupAddress(case["dst"]), payload=apci.GroupValueWrite(DPTArray((1,))), tpci=getattr(tp, case["tpci"])())
            try:
                await xk.cemi_handler.send_telegram(tg)
            except RuntimeError:
                pass
            secured = isinstance(sent[0].data.payload, apci.SecureAPDU)
            if secured != (case["dst"] == KEYED):
                return True, f"telegram to {GroupAddress(case['dst'])} ({case['tpci']}) sent {'secured' if secured else 'PLAIN'}"
            return False, "ok"
        alg = asdu.SecurityAlgorithmIdentifier(case["alg"])
        scf = asdu.SecurityControlField(tool_access=False, algorithm=alg, system_broadcast=False, service=asdu.SecurityALService.S_A_DATA)
        sa = IndividualAddress(case["src"])
        sd = asdu.SecureData.init_from_plain_apdu(key=key, apdu=bytes.fromhex(case["inner"]), scf=scf, sequence_number=case["seq"], address_fields_raw=sa.to_knx() + GA.to_knx(),
                                                  address_type=cf.CEMIAddressType.GROUP, frame_format=cf.CEMIFrameFormat.STANDARD, tpci=tp.TDataGroup())
        frame = cf.CEMIFrame(code=cf.CEMIMessageCode.L_DATA_IND, data=cf.CEMILData(src_addr=sa, dst_addr=GA, tpci=tp.TDataGroup(), payload=apci.SecureAPDU(scf=scf, secured_data=sd)))
        try:
            xk.cemi_handler.handle_raw_cemi(frame.to_knx())
        except Exception as e:  # noqa: BLE001
            return True, f"authenticated frame with inner APDU {case['inner']!r} made handle_raw_cemi raise {e!r}"
        return False, "ok"
    return asyncio.run(go())
