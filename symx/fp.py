"""SymFloat: Python float as z3 Float64, round-nearest-even, no real-number approximation."""
from __future__ import annotations

import builtins
import math
import struct as _struct

import z3

from . import core
from .core import SymBool, SymInt, Unsupported, as_z3_bool, ctx, is_sym, mk_bool, mk_int, zint

F64 = z3.Float64()
F32 = z3.Float32()
RNE = z3.RNE()
RTZ = z3.RTZ()


def fval(x):
    """z3 Float64 term for a float-like."""
    if isinstance(x, SymFloat):
        return x.z
    if isinstance(x, SymInt):
        if max(abs(x.lo), abs(x.hi)) >= (1 << 53):
            # still exact semantics: z3 rounds signed bv to fp with RNE like CPython does (correctly rounded)
            pass
        m = max(abs(x.lo), abs(x.hi))
        bits = m.bit_length() + 1                      # signed width that holds every value within the tracked bounds
        if bits < core.W - 8:
            # the bounds are a sound enclosure (interval guard): converting the low bits only gives the same value and a far
            # smaller bit-blasted converter
            return z3.fpSignedToFP(RNE, z3.Extract(bits - 1, 0, x.z), F64)
        return z3.fpSignedToFP(RNE, x.z, F64)
    if isinstance(x, SymBool):
        return z3.fpSignedToFP(RNE, zint(x), F64)
    if isinstance(x, bool):
        return z3.FPVal(float(x), F64)
    if isinstance(x, int):
        return z3.FPVal(float(x), F64)  # Python int->float is correctly rounded as well
    if isinstance(x, float):
        return z3.FPVal(x, F64)
    return None


def to_symfloat(x):
    if isinstance(x, SymFloat) or isinstance(x, float):
        return x
    z = fval(x)
    if z is None:
        raise TypeError("not a float-like")
    if is_sym(x):
        return SymFloat(z, _fb(x))
    return float(x)


MODE = {"mode": "exact"}     # "exact": IEEE-754 terms; "havoc": arithmetic results are unconstrained floats (sound over-approximation)
_havoc_n = [0]


def havoc_float():
    _havoc_n[0] += 1
    return SymFloat(z3.FP(f"havoc_f{_havoc_n[0]}", F64))


def mkf(z, arith=False, iv=None):
    z = z3.simplify(z)
    if z3.is_fp_value(z):
        return fp_value_to_float(z)
    if arith and MODE["mode"] == "havoc":
        return havoc_float()
    return SymFloat(z, iv)


def fp_value_to_float(v):
    if v.isNaN():
        return math.nan
    if v.isInf():
        return -math.inf if v.isNegative() else math.inf
    if v.isZero():
        return -0.0 if v.isNegative() else 0.0
    sign = v.sign()
    sig = v.significand_as_long()
    exp = v.exponent_as_long(biased=True)
    ebits, sbits = v.ebits(), v.sbits()
    if ebits == 11 and sbits == 53:
        bits = (int(sign) << 63) | (exp << 52) | sig
        return _struct.unpack(">d", bits.to_bytes(8, "big"))[0]
    if ebits == 8 and sbits == 24:
        bits = (int(sign) << 31) | (exp << 23) | sig
        return _struct.unpack(">f", bits.to_bytes(4, "big"))[0]
    raise Unsupported("fp sort")


def fite(c, a, b):
    if isinstance(c, bool):
        return a if c else b
    return mkf(z3.If(as_z3_bool(c), fval(a), fval(b)))


def _fb(x):
    """(lo, hi) float enclosure of a float-like, or None when unknown / possibly NaN."""
    if isinstance(x, SymFloat):
        return x.iv
    if isinstance(x, SymInt):
        if max(abs(x.lo), abs(x.hi)) < (1 << 53):
            return (float(x.lo), float(x.hi))
        return None
    if isinstance(x, SymBool):
        return (0.0, 1.0)
    if isinstance(x, (bool, int, float)):
        f = float(x)
        return None if f != f else (f, f)
    return None


def _corners(op, a, b):
    """Interval of op over two enclosures: by monotonicity of IEEE rounding the corner results enclose every result."""
    if a is None or b is None:
        return None
    try:
        c = [op(x, y) for x in a for y in b]
    except (ZeroDivisionError, OverflowError):
        return None
    if any(v != v or v in (math.inf, -math.inf) for v in c):
        return None
    return (min(c), max(c))


class SymFloat(core.SymFloatBase):
    __slots__ = ("z", "iv")

    def __init__(self, z, iv=None):
        if core._ctx is not None:
            core._ctx.fp_used = True
        self.z = z
        self.iv = iv          # (lo, hi): sound enclosure, excludes NaN/inf; None = unknown

    __hash__ = None

    def _bin(self, o, f, swap=False):
        zo = fval(o)
        if zo is None:
            return NotImplemented
        import operator
        pyop = {z3.fpAdd: operator.add, z3.fpSub: operator.sub, z3.fpMul: operator.mul}[f]
        a, b = (_fb(o), self.iv) if swap else (self.iv, _fb(o))
        return mkf(f(RNE, zo, self.z) if swap else f(RNE, self.z, zo), arith=True, iv=_corners(pyop, a, b))

    def __add__(self, o):
        return self._bin(o, z3.fpAdd)

    __radd__ = __add__

    def __sub__(self, o):
        return self._bin(o, z3.fpSub)

    def __rsub__(self, o):
        return self._bin(o, z3.fpSub, True)

    def __mul__(self, o):
        return self._bin(o, z3.fpMul)

    __rmul__ = __mul__

    def __truediv__(self, o):
        zo = fval(o)
        if zo is None:
            return NotImplemented
        bo = _fb(o)
        nz = bo is not None and (bo[0] > 0 or bo[1] < 0)
        if not nz and mk_bool(z3.fpIsZero(zo)):  # forks when the divisor may be zero
            raise ZeroDivisionError("float division by zero")
        import operator
        return mkf(z3.fpDiv(RNE, self.z, zo), arith=True, iv=_corners(operator.truediv, self.iv, bo) if nz else None)

    def __rtruediv__(self, o):
        zo = fval(o)
        if zo is None:
            return NotImplemented
        nz = self.iv is not None and (self.iv[0] > 0 or self.iv[1] < 0)
        if not nz and mk_bool(z3.fpIsZero(self.z)):
            raise ZeroDivisionError("float division by zero")
        import operator
        return mkf(z3.fpDiv(RNE, zo, self.z), arith=True, iv=_corners(operator.truediv, _fb(o), self.iv) if nz else None)

    def __neg__(self):
        return mkf(z3.fpNeg(self.z), iv=None if self.iv is None else (-self.iv[1], -self.iv[0]))

    def __pos__(self):
        return self

    def __abs__(self):
        iv = None
        if self.iv is not None:
            lo, hi = self.iv
            iv = (0.0 if lo <= 0 <= hi else min(abs(lo), abs(hi)), max(abs(lo), abs(hi)))
        return mkf(z3.fpAbs(self.z), iv=iv)

    def _cmp(self, o, f):
        zo = fval(o)
        if zo is None:
            return NotImplemented
        a, b = self.iv, _fb(o)
        if a is not None and b is not None:        # decided by the enclosures: no solver call
            q = {z3.fpLT: (a[1] < b[0], a[0] >= b[1]), z3.fpLEQ: (a[1] <= b[0], a[0] > b[1]),
                 z3.fpGT: (a[0] > b[1], a[1] <= b[0]), z3.fpGEQ: (a[0] >= b[1], a[1] < b[0])}[f]
            if q[0]:
                return True
            if q[1]:
                return False
        return mk_bool(f(self.z, zo))

    def __lt__(self, o):
        return self._cmp(o, z3.fpLT)

    def __le__(self, o):
        return self._cmp(o, z3.fpLEQ)

    def __gt__(self, o):
        return self._cmp(o, z3.fpGT)

    def __ge__(self, o):
        return self._cmp(o, z3.fpGEQ)

    def __eq__(self, o):
        zo = fval(o)
        if zo is None:
            return False
        return mk_bool(z3.fpEQ(self.z, zo))

    def __ne__(self, o):
        return core.sym_not(self.__eq__(o))

    def __bool__(self):
        return ctx().branch(z3.Not(z3.fpIsZero(self.z)))

    def __int__sym__(self):
        """int(x): truncation toward zero; raises like CPython on nan/inf; Unsupported beyond 62 bits."""
        big = float(1 << 61)
        if self.iv is not None and -big < self.iv[0] and self.iv[1] < big:
            lo, hi = math.trunc(self.iv[0]), math.trunc(self.iv[1])
        else:
            if mk_bool(z3.fpIsNaN(self.z)):
                raise ValueError("cannot convert float NaN to integer")
            if mk_bool(z3.fpIsInf(self.z)):
                raise OverflowError("cannot convert float infinity to integer")
            if mk_bool(z3.Or(z3.fpGEQ(self.z, z3.FPVal(big, F64)), z3.fpLEQ(self.z, z3.FPVal(-big, F64)))):
                raise Unsupported("int(float) beyond 61 bits")
            lo, hi = -(1 << 61), 1 << 61
        if MODE["mode"] == "havoc":
            return ctx().fresh_int(f"havoc_i{len(ctx().ph) + ctx().nvars}", lo, hi)
        return mk_int(z3.fpToSBV(RTZ, self.z, z3.BitVecSort(core.W)), lo, hi)

    def __int__(self):
        raise Unsupported("int() of symbolic float through a C boundary")

    def __float__(self):
        raise Unsupported("float() of symbolic float through a C boundary")

    def __index__(self):
        raise TypeError("'float' object cannot be interpreted as an integer")

    def __round__(self, n=None):
        if n is None:
            big = float(1 << 61)
            if self.iv is not None and -big < self.iv[0] and self.iv[1] < big:
                lo, hi = builtins.round(self.iv[0]), builtins.round(self.iv[1])
            else:
                if mk_bool(z3.fpIsNaN(self.z)):
                    raise ValueError("cannot convert float NaN to integer")
                if mk_bool(z3.fpIsInf(self.z)):
                    raise OverflowError("cannot convert float infinity to integer")
                if mk_bool(z3.Or(z3.fpGEQ(self.z, z3.FPVal(big, F64)), z3.fpLEQ(self.z, z3.FPVal(-big, F64)))):
                    raise Unsupported("round(float) beyond 61 bits")
                lo, hi = -(1 << 61), 1 << 61
            if MODE["mode"] == "havoc":
                return ctx().fresh_int(f"havoc_r{len(ctx().ph) + ctx().nvars}", lo, hi)
            r = z3.fpRoundToIntegral(RNE, self.z)     # Python round(): half to even
            return mk_int(z3.fpToSBV(RTZ, r, z3.BitVecSort(core.W)), lo, hi)
        if MODE["mode"] == "havoc":
            if mk_bool(z3.Or(z3.fpIsNaN(self.z), z3.fpIsInf(self.z))):
                return self          # round(nan/inf, n) returns the value itself
            return havoc_float()
        if MODE.get("round_ndigits") == "relaxed" and isinstance(n, int) and 0 <= n <= 15:
            # over-approximation of decimal rounding: r is ANY double with |r - x| <= 0.5 * 10^-n (slightly widened), r == x
            # for x == 0, sign preserved.  Sound for proving; counterexamples must be replayed (harness marks them abstract).
            if mk_bool(z3.Or(z3.fpIsNaN(self.z), z3.fpIsInf(self.z))):
                return self
            MODE["relaxed_used"] = True
            r = havoc_float_finite()
            tol = z3.FPVal(0.5 * 10.0 ** (-n) * (1 + 1e-9), F64)
            c = ctx()
            c.solver.add(z3.Implies(z3.fpIsZero(self.z), z3.fpEQ(r.z, self.z)))
            c.solver.add(z3.fpLEQ(z3.fpAbs(z3.fpSub(RNE, r.z, self.z)), tol))
            c.solver.add(z3.Implies(z3.fpGEQ(self.z, z3.FPVal(0.0, F64)), z3.fpGEQ(r.z, z3.FPVal(0.0, F64))))
            c.solver.add(z3.Implies(z3.fpLEQ(self.z, z3.FPVal(0.0, F64)), z3.fpLEQ(r.z, z3.FPVal(0.0, F64))))
            c.model = None
            if self.iv is not None:
                t = 0.5 * 10.0 ** (-n) * (1 + 1e-9)
                r.iv = (self.iv[0] - t if self.iv[0] < 0 else max(0.0, self.iv[0] - t), self.iv[1] + t if self.iv[1] > 0 else min(0.0, self.iv[1] + t))
            return r
        if MODE.get("round_ndigits") == "uf" and isinstance(n, core.SymInt):
            MODE["relaxed_used"] = True
            if mk_bool(z3.Or(z3.fpIsNaN(self.z), z3.fpIsInf(self.z))):
                return self
            return mkf(z3.Function("round_dec_sym", F64, z3.BitVecSort(core.W), F64)(self.z, n.z))
        if MODE.get("round_ndigits") == "uf" and isinstance(n, int) and 0 <= n <= 15:
            # uninterpreted function per ndigits: arbitrary but functional (equal arguments give equal results), so two runs
            # of the same decoder on the same payload agree term by term.  Over-approximation: counterexamples are abstract.
            MODE["relaxed_used"] = True
            f = z3.Function(f"round_dec_{n}", F64, F64)
            return mkf(f(self.z))
        raise Unsupported("round(float, ndigits): correctly-rounded decimal rounding is not modelled")

    def __format__(self, spec):
        return ctx().placeholder(self)

    def __repr__(self):
        return ctx().placeholder(self) if core._ctx is not None else "<symfloat>"

    __str__ = __repr__

    def is_integer(self):
        return mk_bool(z3.And(z3.Not(z3.fpIsNaN(self.z)), z3.Not(z3.fpIsInf(self.z)),
                              z3.fpEQ(z3.fpRoundToIntegral(RTZ, self.z), self.z)))


def fresh_float(c, name, finite=True):
    v = z3.FP(name, F64)
    if finite:
        c.solver.add(z3.Not(z3.fpIsNaN(v)), z3.Not(z3.fpIsInf(v)))
        c.model = None
    c.nvars += 1
    return SymFloat(v)


def float_from_bytes(elems, order, width):
    if order == "little":
        elems = elems[::-1]
    parts = [z3.BitVecVal(e, 8) if isinstance(e, int) else z3.Extract(7, 0, zint(e)) for e in elems]
    bv = z3.Concat(*parts) if len(parts) > 1 else parts[0]
    if width == 4:
        f = z3.fpToFP(RNE, z3.fpBVToFP(bv, F32), F64)
    elif width == 8:
        f = z3.fpBVToFP(bv, F64)
    else:
        raise Unsupported("half floats")
    return mkf(f)


def float_to_bytes(v, order, width):
    z = fval(v)
    if z is None:
        raise _struct.error("required argument is not a float")
    if width == 4:
        f32 = z3.fpToFP(RNE, z, F32)
        # CPython raises OverflowError("float too large to pack with f format") when a finite double rounds to inf
        if mk_bool(z3.And(z3.fpIsInf(f32), z3.Not(z3.fpIsInf(z)))):
            raise OverflowError("float too large to pack with f format")
        bv = z3.fpToIEEEBV(f32)
        n = 4
    elif width == 8:
        bv = z3.fpToIEEEBV(z)
        n = 8
    else:
        raise Unsupported("half floats")
    out = []
    for i in range(n):
        b = z3.simplify(z3.Extract(8 * n - 1 - 8 * i, 8 * n - 8 - 8 * i, bv))
        out.append(b.as_long() if z3.is_bv_value(b) else SymInt(z3.ZeroExt(core.W - 8, b), 0, 255))
    if order == "little":
        out = out[::-1]
    return out


def model_float(m, e):
    v = m.eval(e.z, model_completion=True)
    return fp_value_to_float(v)


# ---------------------------------------------------------------- math shim
import math as _math


def math_log10(x):
    if not isinstance(x, SymFloat):
        if is_sym(x):
            x = to_symfloat(x)
        else:
            return _math.log10(x)
    if mk_bool(z3.fpIsNaN(x.z)):
        return _math.nan
    if mk_bool(z3.fpLEQ(x.z, z3.FPVal(0.0, F64))):
        raise ValueError("math domain error")
    if mk_bool(z3.fpIsInf(x.z)):
        return _math.inf
    if MODE["mode"] == "havoc":
        return havoc_float_finite()
    if MODE.get("round_ndigits") == "uf":
        MODE["relaxed_used"] = True
        r = z3.Function("log10_uf", F64, F64)(x.z)
        ctx().solver.add(z3.Not(z3.fpIsNaN(r)), z3.Not(z3.fpIsInf(r)))
        ctx().model = None
        return SymFloat(r, None)
    raise Unsupported("math.log10 of a symbolic float")


def havoc_float_finite():
    f = havoc_float()
    ctx().solver.add(z3.Not(z3.fpIsNaN(f.z)), z3.Not(z3.fpIsInf(f.z)))
    ctx().model = None
    return f


def math_ceil(x):
    if not isinstance(x, SymFloat):
        return _math.ceil(x) if not is_sym(x) else x
    if mk_bool(z3.fpIsNaN(x.z)):
        raise ValueError("cannot convert float NaN to integer")
    if mk_bool(z3.fpIsInf(x.z)):
        raise OverflowError("cannot convert float infinity to integer")
    if MODE["mode"] == "havoc":
        return ctx().fresh_int(f"havoc_c{len(ctx().ph) + ctx().nvars}", -400, 400)   # ceil(log10(|finite double|)) lies in [-324, 309]
    if MODE.get("round_ndigits") == "uf":
        MODE["relaxed_used"] = True
        r = z3.Function("ceil_uf", F64, z3.BitVecSort(core.W))(x.z)
        ctx().solver.add(r >= -400, r <= 400)
        ctx().model = None
        return mk_int(r, -400, 400)
    raise Unsupported("math.ceil of a symbolic float")
