"""C15 Data Secure frames decrypt to exactly what was sent."""
from __future__ import annotations

ID = "C15"
BOUNDS = {
    "quick": "group key (128 bit), source and destination address (16 bit each), sending sequence number (1..2^48-1), receiver's last valid number (< sent), APDU = GroupValueWrite with 6-bit value or n = 1..16, 29, 30 symbolic octets; TPCI in {TDataGroup, TDataBroadcast, TDataTagGroup}; both algorithms; sender -> CEMILData.to_knx -> CEMILData.from_knx -> receiver",
    "thorough": "as quick with every n = 1..240",
}
OUTSIDE = "the strength of AES (uninterpreted permutation); point-to-point Data Secure (not implemented by xknx); keyring loading (C31)"
ASSUMPTIONS = [
    "AES-128 = uninterpreted function E(key, block); CBC/CTR mode logic re-implemented and checked against the cryptography library each run; replays use real AES",
    "the receiver knows the sender with a last valid sequence number smaller than the one sent (freshness is C17's subject)",
    "authentication-only frames are produced through DataSecure._secure_data_cemi with an authentication-only SCF (outgoing_cemi always encrypts)",
]
EXPLANATION = ("C15: DataSecure.outgoing_cemi/_secure_data_cemi, SecureData.*, block_0/counter_0, the CBC-MAC/CTR primitives, SecureAPDU and CEMILData "
               "to_knx/from_knx, DataSecure.received_cemi run symbolically over E; z3 shows rejection infeasible and the delivered APDU equal to the original.")
INTERESTING = ["delivered"]
REQUIRED_REACH = ["delivered"]
TPCIS = ["TDataGroup", "TDataBroadcast", "TDataTagGroup"]


def jobs(tier, seed):
    ns = [0] + list(range(1, 17)) + [29, 30] if tier == "quick" else list(range(0, 241))
    return [dict(name=f"n{n}", n=n, cost=n + 3) for n in ns]


def build(c, n, tname, alg_name, tp, apci, asdu, ds, cf, fl):
    from xknx.dpt import DPTArray, DPTBinary
    from xknx.telegram import GroupAddress, IndividualAddress
    key = c.fresh_bytes("k", 16)
    src = c.fresh_int("src", 0, 65535)
    dst = 0 if tname == "TDataBroadcast" else c.fresh_int("dst", 1, 65535)
    S = c.fresh_int("S", 1, (1 << 48) - 1)
    last = c.fresh_int("last", 0, (1 << 48) - 1)
    c.add(last < S)
    val = c.fresh_int("v", 0, 63) if n == 0 else [c.fresh_int(f"d{i}", 0, 255) for i in range(n)]
    payload = apci.GroupValueWrite(DPTBinary(val) if n == 0 else DPTArray(tuple(val)))
    ga, ia = GroupAddress(dst), IndividualAddress(src)
    sender = ds.DataSecure(group_key_table={ga: key}, individual_address_table={}, last_sequence_number_sending=S)
    receiver = ds.DataSecure(group_key_table={ga: key}, individual_address_table={ia: last}, last_sequence_number_sending=1)
    cemi = cf.CEMILData(src_addr=ia, dst_addr=ga, tpci=getattr(tp, tname)(), payload=payload)
    inputs = dict(key=key, src=src, dst=dst, S=S, last=last, val=val)
    return sender, receiver, cemi, inputs, ia


def run_job(job, rep):
    from symx import core, shims
    from vx.harness import trace_functions
    from vx.util import exc_site, sym_eq
    import props.ds_common as dc
    dc.setup()
    import xknx.secure.data_secure as ds
    import xknx.secure.data_secure_asdu as asdu
    import xknx.cemi.cemi_frame as cf
    import xknx.cemi.flags as fl
    import xknx.telegram.tpci as tp
    import xknx.telegram.apci as apci
    from xknx.exceptions import DataSecureError

    n = job["n"]
    for alg in ("CCM_ENCRYPTION", "CCM_AUTHENTICATION"):
        for tname in TPCIS:
            def run(c):
                sender, receiver, cemi, inputs, ia = build(c, n, tname, alg, tp, apci, asdu, ds, cf, fl)
                c.notes["inputs"] = inputs

                def go():
                    if alg == "CCM_ENCRYPTION":
                        sec = sender.outgoing_cemi(cemi)
                    else:
                        scf = asdu.SecurityControlField(algorithm=asdu.SecurityAlgorithmIdentifier.CCM_AUTHENTICATION, service=asdu.SecurityALService.S_A_DATA,
                                                        system_broadcast=False, tool_access=False)
                        sec = sender._secure_data_cemi(key=inputs["key"], scf=scf, cemi_data=cemi)
                    wire = sec.to_knx()
                    parsed = cf.CEMILData.from_knx(shims.bytes_shim(wire))
                    secure_flag = ds.is_data_secure(parsed)
                    out = receiver.received_cemi(parsed)
                    return sec, out, secure_flag
                sec, out, secure_flag = trace_functions(go, rep) if not rep.functions else go()
                return cemi, sec, out, secure_flag, receiver._individual_address_table[ia], sender._sequence_number_sending

            def judge(pr):
                c = pr.ctx
                if pr.kind in ("unsupported", "timeout"):
                    rep.inconcl(f"{job['name']} {alg} {tname}: {pr.value}"); return
                m = c.current_model()
                inp = c.notes.get("inputs", {})

                def mcase(mm):
                    d = {k: core.model_val(mm, v) for k, v in inp.items()}
                    d["key"] = d["key"].hex()
                    return dict(d, n=n, alg=alg, tpci=tname)
                case = mcase(m)
                sig = f"{alg}:{tname}"
                if pr.kind == "raise":
                    what = "genuine-frame-rejected" if isinstance(pr.value, DataSecureError) else "roundtrip-raises"
                    rep.ob("refuted", f"{what}:{sig}:{exc_site(pr.value)}", case, repr(pr.value)); return
                cemi, sec, out, secure_flag, table_after, counter_after = pr.value
                rep.reach["delivered"] += 1
                conds = dict(payload=sym_eq(out.payload, cemi.payload), marked_secure=secure_flag is True,
                             secured_on_wire=isinstance(sec.payload, apci.SecureAPDU),
                             src=sym_eq(out.src_addr, cemi.src_addr), dst=core.sym_and(type(out.dst_addr) is type(cemi.dst_addr), sym_eq(out.dst_addr, cemi.dst_addr)),
                             tpci=type(out.tpci) is type(cemi.tpci), table=table_after == inp["S"], counter=counter_after == inp["S"] + 1)
                for k, cond in conds.items():
                    st, mm = c.prove(cond)
                    rep.ob(st, f"roundtrip-{k}:{sig}", mcase(mm) if mm is not None else case, f"{k} differs after the secured round trip")
                rep.sample(dict(n=n, variant=sig, witness={k: v for k, v in case.items() if k != "val"}), limit=1)

            _, st = core.explore(run, on_path=judge, stop=rep.enough, timeout=900)
            rep.add_stats(st)


def replay(case):
    import xknx.secure.data_secure as ds
    import xknx.secure.data_secure_asdu as asdu
    import xknx.cemi.cemi_frame as cf
    import xknx.telegram.tpci as tp
    import xknx.telegram.apci as apci
    from xknx.dpt import DPTArray, DPTBinary
    from xknx.telegram import GroupAddress, IndividualAddress
    key = bytes.fromhex(case["key"])
    ga, ia = GroupAddress(case["dst"]), IndividualAddress(case["src"])
    payload = apci.GroupValueWrite(DPTBinary(case["val"]) if case["n"] == 0 else DPTArray(tuple(case["val"])))
    sender = ds.DataSecure(group_key_table={ga: key}, individual_address_table={}, last_sequence_number_sending=case["S"])
    receiver = ds.DataSecure(group_key_table={ga: key}, individual_address_table={ia: case["last"]}, last_sequence_number_sending=1)
    cemi = cf.CEMILData(src_addr=ia, dst_addr=ga, tpci=getattr(tp, case["tpci"])(), payload=payload)
    try:
        if case["alg"] == "CCM_ENCRYPTION":
            sec = sender.outgoing_cemi(cemi)
        else:
            scf = asdu.SecurityControlField(algorithm=asdu.SecurityAlgorithmIdentifier.CCM_AUTHENTICATION, service=asdu.SecurityALService.S_A_DATA, system_broadcast=False, tool_access=False)
            sec = sender._secure_data_cemi(key=key, scf=scf, cemi_data=cemi)
        parsed = cf.CEMILData.from_knx(sec.to_knx())
        out = receiver.received_cemi(parsed)
    except Exception as e:  # noqa: BLE001
        return True, f"genuine secured frame not delivered: {e!r}"
    if out.payload != payload or not ds.is_data_secure(parsed) or not isinstance(sec.payload, apci.SecureAPDU):
        return True, f"delivered {out.payload} for sent {payload}; secure flag {ds.is_data_secure(parsed)}"
    if receiver._individual_address_table[ia] != case["S"] or sender._sequence_number_sending != case["S"] + 1:
        return True, "sequence bookkeeping wrong"
    return False, "ok"
