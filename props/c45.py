"""C45 MCP tools return JSON-native results and invert each other."""
from __future__ import annotations

ID = "C45"
BOUNDS = {
    "quick": "(a) list_dpts with main in {1, 3, 20, 232} and symbolic limit (1..total+2) and offset (0..total+1): returned window, total_count, next_offset and limit_reached against the slice reference; (b) for every integer-, bit-field-, enum- and complex-coded datapoint class with a value type name: decode_dpt_payload(symbolic declared-length payload) -> encode_dpt_payload(value) -> decode_dpt_payload(...) returns the same JSON-native value; the result dataclasses are pushed through dataclasses.asdict + json.dumps on a concrete witness per path",
    "thorough": "as quick with every main number for (a)",
}
OUTSIDE = "float-coded datapoint classes in (b) (their decode/encode stability is C08's subject, where the FP obligations are budgeted); the tools that need a live xknx instance (read/send) beyond argument conversion; MCP server plumbing"
ASSUMPTIONS = ["JSON-native as in C10; list slicing with symbolic bounds is concretised by exhaustive forking"]
EXPLANATION = "C45: the real tool coroutines (list_dpts, encode_dpt_payload, decode_dpt_payload, _paginate, _jsonify) run on symbolic arguments; z3 enumerates the feasible windows and decides the inversion property."
INTERESTING = ["page", "inverted", "rejected-payload"]
REQUIRED_REACH = ["page", "inverted", "rejected-payload"]


def jobs(tier, seed):
    from props.dpt_common import all_classes, chunks
    from props.c08 import is_float_coded
    mains = [1, 3, 20, 232] if tier == "quick" else sorted({c.dpt_main_number for c in all_classes()})
    out = [dict(name=f"page-main{m}", kind="page", main=m, cost=30) for m in mains]
    names = [c.__name__ for c in all_classes() if c.value_type and c.has_distinct_value_type() and c.dpt_main_number != 14 and not is_float_coded(c.__name__)
             and not hasattr(c, "_encoding") and c.__name__ != "DPTDateTime"]
    out += [dict(name=f"invert-{i}", kind="invert", classes=ch, cost=len(ch)) for i, ch in enumerate(chunks(names, 8))]
    return out


def run_job(job, rep):
    import dataclasses
    import json
    import types
    from symx import core, fp, aio
    from vx.harness import trace_functions
    from vx.util import exc_site
    import xknx.mcp.tools as tools
    from xknx.mcp.types import DptFilter, EncodeDptPayloadInput, DecodeDptPayloadInput
    from xknx.dpt import DPTBase, DPTBinary
    from xknx.exceptions import ConversionError, CouldNotParseTelegram
    from props.c10 import json_native
    from props.c08 import same_value
    from props.dpt_common import class_by_name

    fp.MODE["mode"] = "exact"
    if job["kind"] == "page":
        main = job["main"]
        matches = [d for d in DPTBase.dpt_class_tree() if d.dpt_main_number == main]
        matches.sort(key=lambda d: (d.dpt_main_number or 0, d.dpt_sub_number or -1))
        T = len(matches)
        ref = [d.dpt_number_str() + "|" + str(d.value_type) for d in matches]

        def run(c):
            limit = c.fresh_int("limit", 1, T + 2)
            offset = c.fresh_int("offset", 0, T + 1)
            c.notes.update(limit=limit, offset=offset)
            f = lambda: aio.drive(tools.list_dpts(DptFilter(main=main, limit=limit, offset=offset)))[1]
            return trace_functions(f, rep) if not rep.functions else f()

        def judge(pr):
            c = pr.ctx
            n_ = c.notes
            m = c.current_model()
            mcase = lambda mm: dict(kind="page", main=main, limit=core.model_val(mm, n_["limit"]), offset=core.model_val(mm, n_["offset"]))
            case = mcase(m)
            if pr.kind == "raise" and isinstance(pr.value, NotImplementedError) and "get_dict_schema" in exc_site(pr.value):
                # the schema builder compares field annotations with the builtin int/bool/float by identity; inside the
                # analysed modules those names are shims, so optional-typed dataclass fields (DPT 19) are not recognised
                rep.inconcl(f"page main {main}: dict schema of optional-typed fields is not analysable under the shimmed builtins"); return
            if pr.kind != "ok":
                rep.ob("refuted", "list_dpts-raises:" + (exc_site(pr.value) if pr.kind == "raise" else pr.kind), case, repr(pr.value)); return
            r = pr.value
            r = types.SimpleNamespace(dpts=r.dpts, total_count=core.model_val(m, r.total_count), offset=core.model_val(m, r.offset),
                                      next_offset=core.model_val(m, r.next_offset), limit_reached=core.model_val(m, r.limit_reached), raw=r)
            rep.reach["page"] += 1
            L, O = case["limit"], case["offset"]          # concretised by the slicing inside the tool on this path
            got = [d.dpt + "|" + str(d.value_type) for d in r.dpts]
            exp = ref[O:O + L]
            remaining = T - (O + len(exp))
            ok = (got == exp and r.total_count == T and (r.next_offset == (O + len(exp)) if remaining > 0 else r.next_offset is None)
                  and r.limit_reached == (remaining > 0))
            st, mm = c.prove(core.sym_and(n_["limit"] == L, n_["offset"] == O))
            rep.ob("proved" if ok and st == "proved" else "refuted", "page-window", case, f"limit {L} offset {O} of {T}: {len(got)} items, next_offset {r.next_offset}, limit_reached {r.limit_reached}")
            try:
                json.dumps(core.model_val(m, dataclasses.asdict(r.raw)))
            except (TypeError, ValueError) as e:
                rep.ob("refuted", "page-not-json", case, repr(e))
            rep.sample(dict(witness=case, returned=len(got), next_offset=r.next_offset), limit=2)
        _, st = core.explore(run, on_path=judge, stop=rep.enough, timeout=600)
        rep.add_stats(st)
        return

    for name in job["classes"]:
        cls = class_by_name(name)
        vt = cls.value_type

        def run(c):
            if cls.payload_type is DPTBinary:
                payload = c.fresh_int("v", 0, (1 << cls.payload_length) - 1)
            else:
                payload = [c.fresh_int(f"b{i}", 0, 255) for i in range(cls.payload_length)]
            c.notes["payload"] = payload
            from xknx.dpt import DPTArray
            try:
                # a valid JSON-native value of the type: the JSON form of a value the transcoder itself decodes
                raw = DPTBinary(payload) if cls.payload_type is DPTBinary else DPTArray(tuple(payload))
                value = tools._jsonify(cls.from_knx(raw))
            except (ConversionError, CouldNotParseTelegram):
                return None
            d1 = types.SimpleNamespace(value=value, value_type=vt)
            e = aio.drive(tools.encode_dpt_payload(EncodeDptPayloadInput(value=value, value_type=vt)))[1]
            d2 = aio.drive(tools.decode_dpt_payload(DecodeDptPayloadInput(payload=e.payload, value_type=vt)))[1]
            return d1, e, d2

        def judge(pr):
            c = pr.ctx
            if pr.kind in ("unsupported", "timeout"):
                rep.inconcl(f"{name}: {pr.kind} {pr.value}"); return
            m = c.current_model()
            mcase = lambda mm: dict(kind="invert", cls=name, value_type=vt, payload=core.model_val(mm, c.notes["payload"]))
            case = mcase(m)
            if pr.kind == "raise":
                rep.ob("refuted", f"tool-raises:{name}:{type(pr.value).__name__}", case, repr(pr.value)); return
            if pr.value is None:
                rep.reach["rejected-payload"] += 1
                return
            d1, e, d2 = pr.value
            rep.reach["inverted"] += 1
            if not json_native(core, fp, d1.value) or not json_native(core, fp, e.payload):
                rep.ob("refuted", f"tool-result-not-json-native:{name}", case, repr(d1.value)); return
            try:
                json.dumps(core.model_val(m, d1.value))
                json.dumps(core.model_val(m, dataclasses.asdict(e)))
                json.dumps(core.model_val(m, dataclasses.asdict(d2)))
            except (TypeError, ValueError) as ex:
                rep.ob("refuted", f"tool-result-not-json-serialisable:{name}", case, repr(ex)); return
            st, mm = c.prove(same_value(core, fp, d1.value, d2.value))
            rep.ob(st, f"decode-encode-not-inverse:{name}", mcase(mm) if mm is not None else case, "decode(encode(decode(p))) != decode(p)")
            rep.sample(dict(cls=name, witness=case["payload"], value=core.model_val(m, d1.value)), limit=1)
        _, st = core.explore(run, on_path=judge, stop=rep.enough, timeout=120, path_timeout=30)
        rep.add_stats(st)


def replay(case):
    import asyncio
    import dataclasses
    import json
    import xknx.mcp.tools as tools
    from xknx.mcp.types import DptFilter, EncodeDptPayloadInput, DecodeDptPayloadInput
    from xknx.dpt import DPTBase
    from xknx.exceptions import ConversionError, CouldNotParseTelegram

    async def go():
        if case["kind"] == "page":
            matches = [d for d in DPTBase.dpt_class_tree() if d.dpt_main_number == case["main"]]
            matches.sort(key=lambda d: (d.dpt_main_number or 0, d.dpt_sub_number or -1))
            ref = [d.dpt_number_str() for d in matches]
            # follow the pages from the given offset and collect what a client sees
            seen, off, guard = [], case["offset"], 0
            first = None
            while off is not None and guard < 500:
                r = await tools.list_dpts(DptFilter(main=case["main"], limit=case["limit"], offset=off))
                first = first or r
                seen += [d.dpt for d in r.dpts]
                off = r.next_offset
                guard += 1
            if seen != ref[case["offset"]:]:
                return True, f"paging main={case['main']} limit={case['limit']} from offset {case['offset']} returned {len(seen)} of {len(ref) - case['offset']} types ({seen[-3:]} ... expected to end with {ref[-3:]})"
            json.dumps(dataclasses.asdict(first))
            return False, "ok"
        from props.dpt_common import class_by_name
        from xknx.dpt import DPTArray, DPTBinary
        import types
        cls = class_by_name(case["cls"])
        try:
            raw = DPTBinary(case["payload"]) if cls.payload_type is DPTBinary else DPTArray(tuple(case["payload"]))
            d1 = types.SimpleNamespace(value=tools._jsonify(cls.from_knx(raw)))
        except (ConversionError, CouldNotParseTelegram):
            return False, "rejected"
        try:
            json.dumps(d1.value)
            e = await tools.encode_dpt_payload(EncodeDptPayloadInput(value=d1.value, value_type=case["value_type"]))
            d2 = await tools.decode_dpt_payload(DecodeDptPayloadInput(payload=e.payload, value_type=case["value_type"]))
        except Exception as ex:  # noqa: BLE001
            return True, f"{case['cls']}: payload {case['payload']} -> {d1.value!r}: {ex!r}"
        if d2.value != d1.value:
            return True, f"{case['cls']}: payload {case['payload']} -> {d1.value!r} -> {e.payload} -> {d2.value!r}"
        return False, "ok"
    return asyncio.run(go())
