"""Runner shared by all property checks: job fan-out over cores, verdict aggregation, counterexample replay against
the unshimmed code in a fresh interpreter, known-findings matching, evidence writing.

Exit codes: 0 = held on everything explored (inconclusive cells are listed, never counted as held);
            1 = at least one replay-confirmed violation not listed in known_findings.json;
            3 = harness error (engine/shim disagreement with the real code, crashed job, vacuous harness).
"""
from __future__ import annotations

import collections
import importlib
import json
import multiprocessing as mp
import os
import subprocess
import sys
import tempfile
import time
import traceback

ROOT = os.path.dirname(os.path.dirname(os.path.abspath(__file__)))
EVID = os.path.join(ROOT, "evidence")
CEX = os.path.join(EVID, "cex")
PY = os.path.join(ROOT, ".venv", "bin", "python")


class Report:
    """Collected by one job (one worker process)."""

    def __init__(self, job):
        self.job = job
        self.reach = collections.Counter()
        self.obligations = 0
        self.discharged = 0
        self.violations = []      # dict(sig, case, detail)
        self.inconclusive = []    # str
        self.samples = []
        self.witnesses = []       # dict(case, expect)
        self.stats = collections.Counter()
        self.functions = set()
        self.extra = {}

    def ob(self, status, sig=None, case=None, detail=""):
        """Record one solver-decided obligation.  status: proved|refuted|unknown."""
        self.obligations += 1
        if status == "proved":
            self.discharged += 1
        elif status == "refuted":
            self.violation(sig, case, detail)
        else:
            self.inconclusive.append(f"unknown: {sig} {detail}"[:300])

    def violation(self, sig, case, detail=""):
        if sum(1 for v in self.violations if v["sig"] == sig) < 3:
            self.violations.append(dict(sig=sig, case=case, detail=str(detail)[:500]))
        self.stats["violating_paths"] += 1

    def enough(self):
        """Stop exploring a job once it has produced plenty of violating paths (the verdict is already decided)."""
        return self.stats["violating_paths"] >= 25

    def inconcl(self, why):
        if len(self.inconclusive) < 50:
            self.inconclusive.append(str(why)[:300])
        self.stats["inconclusive"] += 1

    def sample(self, s, limit=4):
        if len(self.samples) < limit:
            self.samples.append(s)

    def witness(self, case, expect, limit=6):
        if len(self.witnesses) < limit:
            self.witnesses.append(dict(case=case, expect=expect))

    def add_stats(self, st):
        for k in ("paths", "queries", "unsupported", "timeouts", "unknowns"):
            self.stats[k] += st.get(k, 0)
        self.stats["solver_ms"] += int(st.get("solver_s", 0) * 1000)
        if st.get("judge_skipped"):
            self.inconcl(f"job {self.job.get('name')}: {st['judge_skipped']} path(s) ran out of budget before their inputs were recorded")
        if st.get("incomplete"):
            self.inconcl(f"job {self.job.get('name')} exploration incomplete (budget): {st.get('pending_prefixes')} prefixes pending")

    def dump(self):
        return dict(job=self.job, reach=dict(self.reach), obligations=self.obligations, discharged=self.discharged,
                    violations=self.violations, inconclusive=self.inconclusive, samples=self.samples,
                    witnesses=self.witnesses, stats=dict(self.stats), functions=sorted(self.functions),
                    extra=self.extra)


def _worker(args):
    modname, job = args
    t0 = time.time()
    try:
        sys.setrecursionlimit(1200)
        import logging
        logging.disable(logging.CRITICAL)
        from symx import loader
        if not os.environ.get("VX_NO_LOADER"):
            loader.install()
        mod = importlib.import_module(modname)
        rep = Report(job)
        mod.run_job(job, rep)
        d = rep.dump()
        d["wall_s"] = time.time() - t0
        return d
    except BaseException as e:  # noqa: BLE001 - a crashed job is a harness error, reported as such
        return dict(job=job, crashed="".join(traceback.format_exception(type(e), e, e.__traceback__))[-3000:],
                    wall_s=time.time() - t0)


def _child(modname, job, conn):
    d = _worker((modname, job))
    try:
        conn.send(d)
    except Exception as e:  # noqa: BLE001 - unpicklable result
        conn.send(dict(job=job, crashed=f"result not transferable: {e!r}", wall_s=0))
    conn.close()


def run_pool(modname, jobs, nproc, job_timeout):
    """One forked process per job (a dying worker cannot wedge the run), at most nproc at a time."""
    ctxm = mp.get_context("fork")
    pending = list(jobs)
    running = []
    results = []
    while pending or running:
        while pending and len(running) < nproc:
            j = pending.pop(0)
            pr, pw = ctxm.Pipe(duplex=False)
            p = ctxm.Process(target=_child, args=(modname, j, pw), daemon=True)
            p.start()
            pw.close()
            running.append((p, pr, j, time.time()))
        still = []
        for p, pr, j, t0 in running:
            d = None
            if pr.poll(0):
                try:
                    d = pr.recv()
                except EOFError:
                    d = dict(job=j, crashed=f"worker died without a result (exit code {p.exitcode})", wall_s=time.time() - t0)
                p.join(5)
            elif not p.is_alive():
                p.join(1)
                if pr.poll(0):
                    try:
                        d = pr.recv()
                    except EOFError:
                        d = None
                if d is None:
                    d = dict(job=j, crashed=f"worker died without a result (exit code {p.exitcode})", wall_s=time.time() - t0)
            elif time.time() - t0 > job_timeout:
                p.kill()
                p.join(5)
                d = dict(job=j, crashed=f"job exceeded its wall-clock limit of {job_timeout} s and was killed", wall_s=time.time() - t0)
            if d is None:
                still.append((p, pr, j, t0))
            else:
                results.append(d)
                if os.environ.get("VX_VERBOSE"):
                    print("  job", d["job"]["name"], "crashed" if "crashed" in d else dict(d["stats"]), round(d["wall_s"], 1), flush=True)
        running = still
        if running:
            time.sleep(0.02)
    return results


def trace_functions(fn, rep, limit=400):
    """Run fn() once under a profiler hook and record which /repo functions executed (evidence: functions encoded)."""
    seen = rep.functions

    def prof(frame, event, arg):
        if event == "call":
            co = frame.f_code
            fnm = co.co_filename
            if "/xknx/" in fnm and len(seen) < limit:
                seen.add(fnm.split("/xknx/", 1)[1] + ":" + co.co_qualname)

    sys.setprofile(prof)
    try:
        return fn()
    finally:
        sys.setprofile(None)


def load_known():
    p = os.path.join(ROOT, "known_findings.json")
    if not os.path.exists(p):
        return []
    return json.load(open(p))["findings"]


def run_replays(modname, items, kind):
    """items: list of dict(case=...,...) -> list of results from the clean interpreter (no symx loader)."""
    if not items:
        return []
    with tempfile.TemporaryDirectory(prefix="vxreplay") as td:
        inp = os.path.join(td, "in.json")
        out = os.path.join(td, "out.json")
        json.dump(dict(module=modname, kind=kind, items=items), open(inp, "w"))
        env = dict(os.environ)
        # VERIF_REPO (scratch copy of the repository, used when trying seeded changes) also applies to the clean interpreter
        env["PYTHONPATH"] = ROOT + ((os.pathsep + os.environ["VERIF_REPO"]) if os.environ.get("VERIF_REPO") else "")
        env["PYTHONDONTWRITEBYTECODE"] = "1"
        p = subprocess.run([PY, "-m", "vx.replay", inp, out], env=env, capture_output=True, text=True, timeout=1800)
        if p.returncode != 0 or not os.path.exists(out):
            raise RuntimeError("replay interpreter failed: " + p.stderr[-2000:])
        return json.load(open(out))


def main(modname, argv=None):
    import argparse
    ap = argparse.ArgumentParser()
    ap.add_argument("--tier", default=os.environ.get("VERIF_TIER", "quick"))
    ap.add_argument("--replay", default=None)
    ap.add_argument("--jobs", type=int, default=int(os.environ.get("VERIF_JOBS", "0")) or os.cpu_count())
    ap.add_argument("--only", default=None, help="substring filter on job names (debugging)")
    a = ap.parse_args(argv)
    seed = int(os.environ.get("VERIF_SEED", "0") or 0)
    mod = importlib.import_module(modname)
    pid = mod.ID
    t0 = time.time()

    if a.replay:
        case = json.load(open(a.replay))
        r = run_replays(modname, [dict(case=case.get("case", case))], "replay")[0]
        print(json.dumps(r, indent=1))
        if r["violates"]:
            print(f"VIOLATION property={pid} replay={a.replay}")
            return 1
        return 0

    if not os.environ.get("VX_NO_LOADER"):
        from symx import loader
        loader.install()      # the parent only enumerates jobs; replays run in a separate clean interpreter
    jobs = mod.jobs(a.tier, seed)
    if a.only:
        jobs = [j for j in jobs if a.only in j["name"]]
    # biggest jobs first
    jobs.sort(key=lambda j: -j.get("cost", 1))
    results = run_pool(modname, jobs, a.jobs, job_timeout=int(os.environ.get("VX_JOB_TIMEOUT", "3000")))

    crashed = [d for d in results if "crashed" in d]
    good = [d for d in results if "crashed" not in d]
    tot = collections.Counter()
    reach = collections.Counter()
    functions = set()
    viol, inconcl, samples, witnesses = [], [], [], []
    obligations = discharged = 0
    for d in good:
        tot.update(d["stats"])
        reach.update(d["reach"])
        functions.update(d["functions"])
        obligations += d["obligations"]
        discharged += d["discharged"]
        for v in d["violations"]:
            v["job"] = d["job"]["name"]
            viol.append(v)
        inconcl += [f"{d['job']['name']}: {x}" for x in d["inconclusive"]]
        samples += d["samples"]
        witnesses += d["witnesses"]

    harness_errors = []
    for d in crashed:
        harness_errors.append(f"job {d['job']['name']} crashed: {d['crashed'][-800:]}")

    # ---- translator validation: push path witnesses through the real, unshimmed code
    wres = []
    if witnesses and hasattr(mod, "concrete"):
        wres = run_replays(modname, witnesses, "witness")
        for w, r in zip(witnesses, wres):
            if r.get("error") or r["got"] != w["expect"]:
                harness_errors.append(f"engine/real-code disagreement on witness {json.dumps(w)[:400]} -> {json.dumps(r)[:300]}")

    # ---- replay counterexamples on the unshimmed code
    by_sig = collections.OrderedDict()
    for v in viol:
        by_sig.setdefault(v["sig"], []).append(v)
    to_replay = [vs[0] for vs in by_sig.values()]
    rres = run_replays(modname, to_replay, "replay") if to_replay else []
    known = [k for k in load_known() if k["property"] == pid]
    confirmed, known_hits, fixed_back = [], [], []
    os.makedirs(os.path.join(CEX, pid), exist_ok=True)
    for f in os.listdir(os.path.join(CEX, pid)):
        os.unlink(os.path.join(CEX, pid, f))
    for v, r in zip(to_replay, rres):
        v["replay"] = r
        if not r.get("violates"):
            if v["sig"].startswith("hang:"):
                # the symbolic path ran out of its time budget (machine load, solver time) but the concrete input terminates
                inconcl.append(f"{v['job']}: per-path time budget exhausted on an input that terminates concretely ({v['sig']})")
                continue
            if getattr(mod, "ABSTRACT_SIGS", None) and any(v["sig"].startswith(p) for p in mod.ABSTRACT_SIGS):
                inconcl.append(f"{v['job']}: over-approximated model gave non-reproducing counterexample {v['sig']}")
                continue
            harness_errors.append(f"counterexample does not reproduce on the real code: {v['sig']} {json.dumps(v['case'])[:300]} -> {json.dumps(r)[:300]}")
            continue
        k = next((k for k in known if k["status"] == "known" and k["sig"] == v["sig"]), None)
        if k:
            known_hits.append((k, v))
        else:
            confirmed.append(v)

    # ---- vacuity guard
    for tag in getattr(mod, "REQUIRED_REACH", []):
        if not a.only and reach.get(tag, 0) == 0:
            harness_errors.append(f"vacuity: no path reached '{tag}'")

    lines = []
    for k, v in known_hits:
        lines.append(f"KNOWN-FINDING: property={pid} {k['what']}")
    rc = 0
    for i, v in enumerate(confirmed):
        p = os.path.join(CEX, pid, f"cex_{i}.json")
        json.dump(dict(property=pid, sig=v["sig"], case=v["case"], detail=v["detail"], replay=v["replay"]), open(p, "w"), indent=1)
        lines.append(f"VIOLATION property={pid} replay={p}")
        lines.append(f"  sig={v['sig']} detail={v['detail'][:200]} replay_detail={str(v['replay'].get('detail'))[:200]}")
        rc = 1
    if harness_errors:
        for h in harness_errors[:10]:
            lines.append("HARNESS-ERROR: " + h[:1500])
        if rc == 0:
            rc = 3

    wall = time.time() - t0
    interesting = sum(reach.get(t, 0) for t in getattr(mod, "INTERESTING", list(reach)))
    smp = samples[:8] or [dict(note="no sample recorded")]
    ev = dict(
        property_id=pid, tier=a.tier if a.tier in ("quick", "thorough") else "quick", seed=seed, level="other",
        coverage=dict(
            explanation=("Bounded symbolic execution of the real xknx functions (import hook compiles /repo's current "
                         "source; symbolic ints/bytes/floats as z3 terms); every path condition and every assertion is "
                         "decided by z3; counterexamples are replayed on the unshimmed code. " + getattr(mod, "EXPLANATION", "")),
            evaluations=int(tot["paths"]), distinct_nontrivial=int(interesting),
            rule=getattr(mod, "RULE", "one evaluation = one feasible symbolic path (a set of inputs, not one input); "
                                      "non-trivial = path reaches one of the tags in 'interesting_tags'"),
            interesting_tags=getattr(mod, "INTERESTING", list(reach)),
            samples=smp, obligations=obligations, discharged=discharged,
            inconclusive=len(inconcl), inconclusive_list=inconcl[:40],
            paths=int(tot["paths"]), solver_queries=int(tot["queries"]), solver_s=round(tot["solver_ms"] / 1000, 2),
            unsupported_paths=int(tot["unsupported"]), path_timeouts=int(tot["timeouts"]), solver_unknowns=int(tot["unknowns"]),
            reach=dict(reach), jobs=len(jobs), jobs_crashed=len(crashed),
            functions_encoded=sorted(functions)[:400], bounds=mod.BOUNDS.get(a.tier, mod.BOUNDS.get("quick")),
            outside_bounds=getattr(mod, "OUTSIDE", ""),
            witnesses_validated_against_real_code=len(wres),
            counterexamples_replayed=len(rres), known_findings_hit=[k["what"] for k, _ in known_hits],
            checker_cmd=f"./check {pid} --tier {a.tier}", trusted_base=["z3 5.1.0", "symx engine + shims (validated by selfcheck and per-run witnesses)", "CPython 3.12"],
            exhaustive=False,
        ),
        assumptions=list(getattr(mod, "ASSUMPTIONS", [])),
        wall_s=round(wall, 2), violations=len(confirmed),
    )
    os.makedirs(EVID, exist_ok=True)
    tmp = os.path.join(EVID, f"{pid}.json.tmp")
    json.dump(ev, open(tmp, "w"), indent=1, default=str)
    os.replace(tmp, os.path.join(EVID, f"{pid}.json"))
    print(f"{pid} tier={a.tier} jobs={len(jobs)} paths={tot['paths']} queries={tot['queries']} solver_s={tot['solver_ms']/1000:.1f} "
          f"obligations={obligations} discharged={discharged} inconclusive={len(inconcl)} witnesses={len(wres)} wall={wall:.1f}s reach={ {k: v for k, v in reach.items() if ':' not in k} }")
    for ln in lines:
        print(ln)
    if inconcl:
        print(f"INCONCLUSIVE ({len(inconcl)} cells, excluded from the claim), e.g.: {inconcl[0][:300]}")
    return rc
