"""C08 Every decoded datapoint value re-encodes to a payload with the same meaning."""
from __future__ import annotations

ID = "C08"
BOUNDS = {
    "quick": "every class of DPTBase.dpt_class_tree(); the declared-length payload with all octets (or the 6-bit value) symbolic; exact IEEE-754 semantics for float-coded types (z3 Float64), with a budget of 45 s per class and 40 s per solver query (portfolio: z3 bit-blasting tactic, z3 default, cvc5 binary): classes that exceed it are listed as inconclusive; text types: first three octets from {00, 41, 7F, 80, E9, FF} (rest NUL); DPT 14.* (round(x, ndigits) and log10 are not modelled exactly) not applicable",
    "thorough": "as quick with 240 s per class and 120 s per solver query",
}
OUTSIDE = "DPT 14.xxx display rounding (decimal rounding to 7 significant digits is not encodable); text payloads beyond the stated alphabet/positions; cells listed as inconclusive in the evidence (solver budget)"
ASSUMPTIONS = [
    "'same value' = Python equality of the decoded values, structural for complex values; two NaNs count as the same value",
    "text types: the documented '?' replacement is what str.encode(errors='replace') of the real code produces on the forked concrete text",
]
EXPLANATION = "C08: from_knx -> to_knx -> from_knx of every datapoint class on a symbolic payload; z3 decides that the encoder accepts the decoded value and that the second decoding equals the first."
INTERESTING = ["stable", "rejected-payload"]
REQUIRED_REACH = ["stable", "rejected-payload"]
TEXT = ()   # text classes are recognised by their _encoding attribute


def jobs(tier, seed):
    from props.dpt_common import all_classes, chunks
    names = [c.__name__ for c in all_classes() if c.dpt_main_number != 14]
    budget = (45, 40) if tier == "quick" else (240, 120)
    out = []
    heavy = [n for n in names if is_float_coded(n)]
    light = [n for n in names if n not in heavy]
    for i, ch in enumerate(chunks(light, 8)):
        out.append(dict(name=f"int-{i}", classes=ch, budget=budget, cost=len(ch)))
    for n in heavy:
        out.append(dict(name=f"float-{n}", classes=[n], budget=budget, cost=100))
    return out


def is_float_coded(name):
    from props.dpt_common import class_by_name
    cls = class_by_name(name)
    res = getattr(cls, "resolution", 1)
    return cls.dpt_main_number in (9,) or (isinstance(res, float) and res != 1.0) or name in ("DPTScaling", "DPTAngle") or cls.dpt_main_number in (242, 243, 249)


def same_value(core, fp, a, b):
    import dataclasses
    import z3
    if isinstance(a, (float, fp.SymFloat)) or isinstance(b, (float, fp.SymFloat)):
        za, zb = fp.fval(a), fp.fval(b)
        if za is None or zb is None:
            return False
        return core.mk_bool(z3.Or(z3.fpEQ(za, zb), z3.And(z3.fpIsNaN(za), z3.fpIsNaN(zb))))
    if dataclasses.is_dataclass(a) and not isinstance(a, type):
        if type(a) is not type(b):
            return False
        return core.sym_and(*[same_value(core, fp, getattr(a, f.name), getattr(b, f.name)) for f in dataclasses.fields(a)])
    if isinstance(a, (tuple, list)):
        if not isinstance(b, (tuple, list)) or len(a) != len(b):
            return False
        return core.sym_and(*[same_value(core, fp, x, y) for x, y in zip(a, b)]) if a else True
    if a is None or b is None:
        return a is b
    if isinstance(a, str) and isinstance(b, str):
        # documented exception: undecodable octets come back as '?' after re-encoding
        return a.replace("\ufffd", "?") == b.replace("\ufffd", "?")
    from vx.util import sym_eq
    return sym_eq(a, b)


def run_job(job, rep):
    from symx import core, fp, shims
    from vx.harness import trace_functions
    from vx.util import exc_site
    from props.dpt_common import class_by_name, payload_json
    from xknx.dpt import DPTArray, DPTBinary
    from xknx.exceptions import ConversionError, CouldNotParseTelegram

    fp.MODE["mode"] = "exact"
    budget, path_budget = job["budget"]
    core.QUERY_TIMEOUT_MS[0] = path_budget * 1000
    for name in job["classes"]:
        cls = class_by_name(name)
        text = hasattr(cls, "_encoding")
        shims.DECODE_MODE["mode"] = "fork" if text else "placeholder"

        def run(c):
            if cls.payload_type is DPTBinary:
                p = DPTBinary(c.fresh_int("v", 0, 63))
            else:
                octs = [c.fresh_int(f"b{i}", 0, 255) for i in range(cls.payload_length)]
                if text:
                    import z3
                    for i, o in enumerate(octs):
                        if i < 3:
                            c.add(z3.Or(*[o.z == v for v in (0x00, 0x41, 0x7F, 0x80, 0xE9, 0xFF)]))
                        else:
                            octs[i] = 0
                p = DPTArray(tuple(octs))
            c.notes["p"] = p
            try:
                v = trace_functions(lambda: cls.from_knx(p), rep) if len(rep.functions) < 350 and not rep.extra.get(name) else cls.from_knx(p)
            except (ConversionError, CouldNotParseTelegram):
                return None
            try:
                p2 = cls.to_knx(v)
            except ConversionError as e:
                return ("encoder-rejects", v, e)
            v2 = cls.from_knx(p2)
            return ("ok", v, p2, v2)

        def judge(pr):
            c = pr.ctx
            if pr.kind in ("unsupported", "timeout"):
                rep.inconcl(f"{name}: {pr.kind} {pr.value}"); return
            m = c.current_model()
            mcase = lambda mm: dict(cls=name, payload=payload_json(core, mm, c.notes["p"]))
            case = mcase(m)
            if pr.kind == "raise":
                rep.ob("refuted", f"roundtrip-raises:{name}:{type(pr.value).__name__}", case, repr(pr.value)); return
            if pr.value is None:
                rep.reach["rejected-payload"] += 1
                return
            if pr.value[0] == "encoder-rejects":
                rep.ob("refuted", f"decoded-value-rejected-by-encoder:{name}", case, repr(pr.value[2])); return
            _, v, p2, v2 = pr.value
            rep.reach["stable"] += 1
            st, mm = c.prove(same_value(core, fp, v, v2))
            rep.ob(st, f"redecode-differs:{name}", mcase(mm) if mm is not None else case, "from_knx(to_knx(from_knx(p))) != from_knx(p)")
            rep.sample(dict(cls=name, witness=case["payload"]), limit=1)
        rep.extra[name] = True
        _, st = core.explore(run, on_path=judge, stop=rep.enough, timeout=budget, path_timeout=path_budget)
        rep.add_stats(st)
    shims.DECODE_MODE["mode"] = "placeholder"


def replay(case):
    import math
    from props.dpt_common import class_by_name, payload_from_json
    from xknx.exceptions import ConversionError, CouldNotParseTelegram
    cls = class_by_name(case["cls"])
    p = payload_from_json(case["payload"])
    try:
        v = cls.from_knx(p)
    except (ConversionError, CouldNotParseTelegram):
        return False, "rejected"
    try:
        p2 = cls.to_knx(v)
    except ConversionError as e:
        return True, f"{cls.__name__}: from_knx({p!r}) = {v!r} which to_knx refuses: {e}"
    except Exception as e:  # noqa: BLE001
        return True, f"{cls.__name__}: to_knx({v!r}) raised {e!r}"
    try:
        v2 = cls.from_knx(p2)
    except Exception as e:  # noqa: BLE001
        return True, f"{cls.__name__}: {p!r} -> {v!r} -> {p2!r} does not decode: {e!r}"
    same = v == v2 or (isinstance(v, float) and isinstance(v2, float) and math.isnan(v) and math.isnan(v2)) or (isinstance(v, str) and isinstance(v2, str) and v.replace("\ufffd", "?") == v2.replace("\ufffd", "?"))
    if not same:
        return True, f"{cls.__name__}: {p!r} -> {v!r} -> {p2!r} -> {v2!r}"
    return False, "ok"
