"""C29 A secure session only accepts fresh wrapped frames and never sends plain ones."""
from __future__ import annotations

ID = "C29"
BOUNDS = {
    "quick": "one step of SecureSession.handle_knxipframe from an arbitrary state (initialized yes/no, last accepted sequence number -1..2^48-1 symbolic, session key and id symbolic): (a) an arbitrary received SECURE_WRAPPER (session id, sequence info, serial, tag, 6 ciphertext octets, MAC symbolic; decrypted inner frame = arbitrary service type or parse error), also two wrappers in a row; (b) a plain frame of every body class; one step of send() from an arbitrary state (sequence number 0..2^48 symbolic) for a SessionRequest and for other bodies, two sends in a row, and stop() (session close frame)",
    "thorough": "as quick with ciphertexts of 6 and 10 octets and three wrappers in a row",
}
OUTSIDE = "histories longer than the bound follow by induction on (initialized, last accepted number, sending counter), argued not mechanised; the ECDH/authenticate handshake itself (C28 checks its MACs); keepalive timing (the keepalive task is an inert recorded handle); AES strength"
ASSUMPTIONS = [
    "AES-128 = uninterpreted function E; the decrypted inner frame is not parsed (arbitrary service type or parse error, as in C28)",
    "registered callbacks and the TCP transport are recorders; asyncio.create_task in xknx.io.ip_secure returns an inert handle",
]
EXPLANATION = ("C29: SecureSession.handle_knxipframe/decrypt_frame and send/encrypt_frame/stop run from symbolic state over E; z3 decides: passed on => initialised, "
               "specification MAC, own session id, sequence number > last, allowed inner service, counter := number; not passed on => counter unchanged; "
               "plain frames only SessionResponse before initialisation; sends: only SessionRequest in the clear, wrappers carry strictly increasing numbers, overflow raises IPSecureError.")
INTERESTING = ["wrapper-passed", "wrapper-dropped", "plain-passed", "plain-dropped", "sent-wrapped", "sent-plain", "send-refused"]
REQUIRED_REACH = ["wrapper-passed", "wrapper-dropped", "plain-passed", "plain-dropped", "sent-wrapped", "sent-plain", "send-refused"]


def jobs(tier, seed):
    out = []
    for L in ((6,) if tier == "quick" else (6, 10)):
        out.append(dict(name=f"recv-wrapper-L{L}", kind="recv", L=L, frames=1, cost=60))
    out.append(dict(name="recv-wrapper-hist2", kind="recv", L=6, frames=2, cost=300))
    if tier != "quick":
        out.append(dict(name="recv-wrapper-hist3", kind="recv", L=6, frames=3, cost=900))
    out += [dict(name="recv-plain", kind="plain", cost=5), dict(name="send", kind="send", cost=20), dict(name="stop", kind="stop", cost=5)]
    return out


def mk_session(ips, c, types):
    s = ips.SecureSession.__new__(ips.SecureSession)
    s.remote_addr = ("10.0.0.1", 3671)
    s.remote_hpai = None
    s.callbacks = []
    s._buffer = b""
    s._connection_lost_cb = None
    s._keepalive_task = None
    s._session_status_handler = None
    return s


def run_job(job, rep):
    import types
    import z3
    from symx import core, crypto
    from vx.harness import trace_functions
    from vx.util import exc_site
    import props.ds_common as dc
    dc.setup()
    from spec import ipsecure_reference as ref
    import xknx.io.ip_secure as ips
    import xknx.knxip as knxip
    from xknx.exceptions import CouldNotParseKNXIP, IPSecureError

    tasks = []
    ips.asyncio = types.SimpleNamespace(create_task=lambda coro: (coro.close(), tasks.append("task"), types.SimpleNamespace(cancel=lambda: tasks.append("cancel")))[-1],
                                        sleep=None, Task=object)
    kind = job["kind"]
    members = list(knxip.KNXIPServiceType)

    if kind == "recv":
        L, frames = job["L"], job["frames"]

        def run(c):
            s = mk_session(ips, c, types)
            key = c.fresh_bytes("k", 16)
            own = c.fresh_int("own_sid", 0, 65535)
            last = c.fresh_int("last", -1, (1 << 48) - 1)
            init = c.fresh_bool("initialized")
            s._key, s.session_id, s._sequence_number_received, s.initialized, s._sequence_number = key, own, last, init, 5
            got = []
            s.register_callback(lambda frame, src, tr: got.append(frame))

            class InnerFrame:
                init_from_body = knxip.KNXIPFrame.init_from_body

                @staticmethod
                def from_knx(data):
                    i = core.concretize(c.fresh_int(f"inner_service{len(c.notes.setdefault('inner', []))}", 0, len(members)))
                    c.notes["inner"].append(i)
                    if i == len(members):
                        raise CouldNotParseKNXIP("inner frame does not parse")
                    return types.SimpleNamespace(header=types.SimpleNamespace(service_type_ident=members[i]), body=None), b""
            ips.KNXIPFrame = InnerFrame
            fr = []
            log = []
            for i in range(frames):
                sid = c.fresh_bytes(f"sid{i}_", 2)
                seq, serial, tag = c.fresh_bytes(f"seq{i}_", 6), c.fresh_bytes(f"ser{i}_", 6), c.fresh_bytes(f"tag{i}_", 2)
                ct, mac = c.fresh_bytes(f"c{i}_", L), c.fresh_bytes(f"mac{i}_", 16)
                total = 38 + L
                header = [0x06, 0x10, 0x09, 0x50, total >> 8, total & 0xFF]
                raw = core.SymBytes(header + list(sid) + list(seq) + list(serial) + list(tag) + list(ct) + list(mac))
                fr.append(dict(header=header, sid=sid, seq=seq, serial=serial, tag=tag, ct=ct, mac=mac, raw=raw))
            c.notes.update(key=key, own=own, last=last, init=init, fr=fr)
            for f in fr:
                frame, _ = knxip.KNXIPFrame.from_knx(f["raw"])
                n0 = len(got)
                before = s._sequence_number_received
                go = lambda: s.handle_knxipframe(frame, knxip.HPAI())
                try:
                    trace_functions(go, rep) if not rep.functions else go()
                    raised = None
                except CouldNotParseKNXIP as e:
                    raised = e
                log.append((got[n0:], before, s._sequence_number_received, raised))
            return log

        def judge(pr):
            c = pr.ctx
            if pr.kind in ("unsupported", "timeout"):
                rep.inconcl(f"{job['name']}: {pr.value}"); return
            n_ = c.notes
            m = c.current_model()

            def mcase(mm):
                return dict(kind="recv", key=core.model_val(mm, n_["key"]).hex(), own=core.model_val(mm, n_["own"]), last=core.model_val(mm, n_["last"]),
                            initialized=core.model_val(mm, n_["init"]), raws=[f["raw"].concrete(mm).hex() for f in n_["fr"]], inner=n_.get("inner", []))
            case = mcase(m)
            if pr.kind == "raise":
                rep.ob("refuted", "handle-raises:" + exc_site(pr.value), case, repr(pr.value)); return
            cur = n_["last"]
            conds = []
            k = 0
            for f, (passed, before, after, raised) in zip(n_["fr"], pr.value):
                conds.append(core.as_z3_bool(before == cur))
                if passed:
                    rep.reach["wrapper-passed"] += 1
                    pairs, plain = ref.unwrap_check(crypto.enc_block, dc.bv_add, list(n_["key"]), f["header"], list(f["sid"]), list(f["seq"]), list(f["serial"]), list(f["tag"]), list(f["ct"]), list(f["mac"]))
                    q = core.int_from_bytes(f["seq"])
                    conds += [core.zint(a) == core.zint(b) for a, b in pairs]
                    conds += [core.as_z3_bool(x) for x in (n_["init"], core.int_from_bytes(f["sid"]) == n_["own"], q > cur, after == q, len(passed) == 1)]
                    svc = passed[0].header.service_type_ident
                    conds.append(z3.BoolVal(svc not in ips.FORBIDDEN_WRAPPED_SERVICES))
                    cur = q
                else:
                    rep.reach["wrapper-dropped"] += 1
                    conds.append(core.as_z3_bool(after == cur))
                    if raised is not None:
                        conds.append(core.as_z3_bool(core.sym_not(n_["init"])))
            st, mm = c.prove(z3.And(*conds))
            rep.ob(st, "wrapper-handling", mcase(mm) if mm is not None else case, "wrapper passed on without meeting the specification, or counter moved by a dropped frame")
            rep.sample(dict(witness={k: v for k, v in case.items() if k != "raws"}, outcome=[len(p) for p, *_ in pr.value]), limit=2)

        _, st = core.explore(run, on_path=judge, stop=rep.enough, timeout=1200)
        rep.add_stats(st)
        return

    if kind == "plain":
        bodies = [knxip.SessionResponse(), knxip.SessionStatus(), knxip.SessionRequest(), knxip.TunnellingRequest(), knxip.TunnellingAck(), knxip.ConnectResponse(),
                  knxip.ConnectionStateResponse(), knxip.DisconnectRequest(), knxip.DisconnectResponse(), knxip.RoutingIndication(), knxip.SearchResponse(),
                  knxip.DescriptionResponse(), knxip.SessionAuthenticate(), knxip.TimerNotify(), knxip.DeviceConfigurationRequest()]
        for body in bodies:
            def run(c):
                s = mk_session(ips, c, types)
                init = c.fresh_bool("initialized")
                s.initialized, s._sequence_number_received = init, 7
                got = []
                s.register_callback(lambda frame, src, tr: got.append(frame))
                c.notes.update(init=init)
                f = lambda: s.handle_knxipframe(knxip.KNXIPFrame.init_from_body(body), knxip.HPAI())
                trace_functions(f, rep) if not rep.functions else f()
                return got, s._sequence_number_received

            def judge(pr):
                c = pr.ctx
                m = c.current_model()
                case = dict(kind="plain", body=type(body).__name__, initialized=core.model_val(m, c.notes["init"]))
                if pr.kind != "ok":
                    rep.ob("refuted", "plain-raises:" + (exc_site(pr.value) if pr.kind == "raise" else pr.kind), case, repr(pr.value)); return
                got, cnt = pr.value
                rep.reach["plain-passed" if got else "plain-dropped"] += 1
                allowed = core.sym_and(core.sym_not(c.notes["init"]), isinstance(body, knxip.SessionResponse))
                st, mm = c.prove(core.sym_and(allowed if got else core.sym_not(allowed), cnt == 7))
                rep.ob(st, f"plain-frame-handling:{type(body).__name__}", case if mm is None else dict(case, initialized=core.model_val(mm, c.notes["init"])), "plain frame passed on (or SessionResponse before initialisation dropped)")
                rep.sample(dict(witness=case, passed=bool(got)), limit=4)
            _, st = core.explore(run, on_path=judge, stop=rep.enough)
            rep.add_stats(st)
        return

    if kind == "send":
        for bname in ("SessionRequest", "TunnellingRequest", "ConnectionStateRequest", "SessionStatus"):
            def run(c):
                s = mk_session(ips, c, types)
                key = c.fresh_bytes("k", 16)
                init = c.fresh_bool("initialized")
                seq0 = c.fresh_int("seq", 0, 1 << 48)
                s._key, s.session_id, s.initialized, s._sequence_number = key, c.fresh_int("sid", 0, 65535), init, seq0
                written = []
                s.transport = types.SimpleNamespace(write=lambda data: written.append(data))
                c.notes.update(init=init, seq0=seq0, key=key)
                res = []
                for _ in range(2):
                    try:
                        f = lambda: s.send(knxip.KNXIPFrame.init_from_body(getattr(knxip, bname)()))
                        trace_functions(f, rep) if not rep.functions else f()
                        res.append(("sent", written[-1], s._sequence_number))
                    except IPSecureError as e:
                        res.append(("refused", None, s._sequence_number))
                return res

            def judge(pr):
                c = pr.ctx
                n_ = c.notes
                m = c.current_model()
                mcase = lambda mm: dict(kind="send", body=bname, initialized=core.model_val(mm, n_["init"]), seq=core.model_val(mm, n_["seq0"]), key=core.model_val(mm, n_["key"]).hex())
                case = mcase(m)
                if pr.kind != "ok":
                    rep.ob("refuted", "send-raises:" + (exc_site(pr.value) if pr.kind == "raise" else pr.kind), case, repr(pr.value)); return
                cur = n_["seq0"]
                conds = []
                for tag, data, after in pr.value:
                    if tag == "sent":
                        wrapped = (data[2] == 0x09 and data[3] == 0x50) if not core.is_sym(data[2]) else False
                        rep.reach["sent-wrapped" if wrapped else "sent-plain"] += 1
                        if wrapped:
                            q = core.int_from_bytes(data[8:14])
                            conds += [n_["init"], q == cur, after == cur + 1, cur <= (1 << 48) - 1]
                            cur = cur + 1
                        else:
                            conds += [core.sym_not(n_["init"]), bname == "SessionRequest", after == cur]
                    else:
                        rep.reach["send-refused"] += 1
                        conds.append(core.sym_or(core.sym_and(core.sym_not(n_["init"]), bname != "SessionRequest"), core.sym_and(n_["init"], cur > (1 << 48) - 1)))
                st, mm = c.prove(core.sym_and(*conds))
                rep.ob(st, f"send-handling:{bname}", mcase(mm) if mm is not None else case, "plain frame sent / sequence number not strictly increasing / overflow not refused")
                rep.sample(dict(witness={k: v for k, v in case.items() if k != "key"}, outcome=[t for t, *_ in pr.value]), limit=4)
            _, st = core.explore(run, on_path=judge, stop=rep.enough, timeout=600)
            rep.add_stats(st)
        return

    # stop(): the close frame of an initialised session is wrapped and continues the sequence
    def run(c):
        s = mk_session(ips, c, types)
        key = c.fresh_bytes("k", 16)
        seq0 = c.fresh_int("seq", 1, (1 << 48) - 1)
        s._key, s.session_id, s.initialized, s._sequence_number = key, c.fresh_int("sid", 0, 65535), True, seq0
        written = []
        s.transport = types.SimpleNamespace(write=lambda data: written.append(data), close=lambda: None)
        c.notes.update(seq0=seq0)
        s.stop()
        return written, s.initialized

    def judge(pr):
        c = pr.ctx
        m = c.current_model()
        seq0 = c.notes["seq0"]
        case = dict(kind="stop", seq=core.model_val(m, seq0))
        if pr.kind != "ok":
            rep.ob("refuted", "stop-raises:" + (exc_site(pr.value) if pr.kind == "raise" else pr.kind), case, repr(pr.value)); return
        written, init = pr.value
        rep.reach["sent-wrapped"] += 1
        if len(written) != 1 or written[0][2] != 0x09 or written[0][3] != 0x50:
            rep.ob("refuted", "close-frame-not-wrapped", case, f"{len(written)} frames written"); return
        st, mm = c.prove(core.sym_and(core.int_from_bytes(written[0][8:14]) == seq0, init is False))
        rep.ob(st, "close-frame-sequence", case if mm is None else dict(kind="stop", seq=core.model_val(mm, seq0)), "session close frame does not continue the sequence")
        rep.sample(dict(witness=case))
    _, st = core.explore(run, on_path=judge, stop=rep.enough)
    rep.add_stats(st)


def _session(case_key=None):
    import asyncio
    from unittest.mock import Mock
    import xknx.io.ip_secure as ips
    s = ips.SecureSession.__new__(ips.SecureSession)
    s.remote_addr = ("10.0.0.1", 3671)
    s.remote_hpai = None
    s.callbacks = []
    s._buffer = b""
    s._connection_lost_cb = None
    s._keepalive_task = None
    s._session_status_handler = None
    return s


def replay(case):
    import asyncio
    from unittest.mock import Mock, patch
    import props.ds_common as dc
    from spec import ipsecure_reference as ref
    import xknx.io.ip_secure as ips
    import xknx.knxip as knxip
    from xknx.exceptions import CouldNotParseKNXIP, IPSecureError
    from xknx.secure.security_primitives import calculate_message_authentication_code_cbc, encrypt_data_ctr
    bv = lambda ctr, k: list(((int.from_bytes(bytes(ctr), "big") + k) % (1 << 128)).to_bytes(16, "big"))

    async def go():
        if case["kind"] == "recv":
            key = bytes.fromhex(case["key"])
            members = list(knxip.KNXIPServiceType)
            for variant in ("model", "genuine"):
                s = _session()
                s._key, s.session_id, s._sequence_number_received, s.initialized, s._sequence_number = key, case["own"], case["last"], case["initialized"], 5
                got = []
                s.register_callback(lambda frame, src, tr: got.append(frame))
                cur = case["last"]
                for i, rawhex in enumerate(case["raws"]):
                    raw = bytes.fromhex(rawhex)
                    if variant == "genuine":
                        # inner frame: a parsable one (empty ROUTING_INDICATION); if the model involved a nested wrapper use that
                        inner = bytes([0x06, 0x10, 0x05, 0x30, 0x00, 0x06])
                        if any(i < len(members) and members[i].name == "SECURE_WRAPPER" for i in case["inner"]):
                            inner = bytes([0x06, 0x10, 0x09, 0x50, 0x00, 0x28]) + bytes(34)
                        hdr = bytes([0x06, 0x10, 0x09, 0x50, 0x00, 38 + len(inner)])
                        sid, seq, ser, tag = raw[6:8], raw[8:14], raw[14:20], raw[20:22]
                        mac_cbc = calculate_message_authentication_code_cbc(key=key, additional_data=hdr + sid, payload=inner, block_0=seq + ser + tag + len(inner).to_bytes(2, "big"))
                        ct, mac = encrypt_data_ctr(key=key, counter_0=seq + ser + tag + b"\xff\x00", mac_cbc=mac_cbc, payload=inner)
                        raw = hdr + sid + seq + ser + tag + ct + mac
                    frame = knxip.KNXIPFrame.from_knx(raw)[0]
                    n0 = len(got)
                    try:
                        s.handle_knxipframe(frame, knxip.HPAI())
                    except CouldNotParseKNXIP:
                        if case["initialized"]:
                            return True, "handle_knxipframe raised CouldNotParseKNXIP on an initialised session"
                    except Exception as e:  # noqa: BLE001
                        return True, f"handle_knxipframe raised {e!r}"
                    passed = got[n0:]
                    q = int.from_bytes(raw[8:14], "big")
                    if passed:
                        pairs, _ = ref.unwrap_check(dc.real_enc, bv, list(key), list(raw[:6]), list(raw[6:8]), list(raw[8:14]), list(raw[14:20]), list(raw[20:22]), list(raw[22:-16]), list(raw[-16:]))
                        ok = (all(a == b for a, b in pairs) and case["initialized"] and int.from_bytes(raw[6:8], "big") == case["own"] and q > cur
                              and s._sequence_number_received == q and passed[0].header.service_type_ident not in ips.FORBIDDEN_WRAPPED_SERVICES)
                        if not ok:
                            return True, f"wrapper {raw.hex()} passed on (last accepted {cur}, own session {case['own']}, initialised {case['initialized']}, inner {passed[0].header.service_type_ident.name}); counter now {s._sequence_number_received}"
                        cur = q
                    elif s._sequence_number_received != cur:
                        return True, f"dropped wrapper moved the counter {cur} -> {s._sequence_number_received}"
            return False, "ok"
        if case["kind"] == "plain":
            s = _session()
            s.initialized, s._sequence_number_received = case["initialized"], 7
            got = []
            s.register_callback(lambda frame, src, tr: got.append(frame))
            s.handle_knxipframe(knxip.KNXIPFrame.init_from_body(getattr(knxip, case["body"])()), knxip.HPAI())
            allowed = (not case["initialized"]) and case["body"] == "SessionResponse"
            return bool(got) != allowed, f"plain {case['body']} passed={bool(got)} initialised={case['initialized']}"
        s = _session()
        key = bytes.fromhex(case.get("key", "00" * 16))
        written = []
        s.transport = Mock()
        s.transport.write = written.append
        s._key, s.session_id = key, 3
        if case["kind"] == "stop":
            s.initialized, s._sequence_number = True, case["seq"]
            s.stop()
            if len(written) != 1 or written[0][2:4] != b"\x09\x50" or int.from_bytes(written[0][8:14], "big") != case["seq"]:
                return True, f"close frame written as {[w.hex() for w in written]} with sending counter {case['seq']}"
            return False, "ok"
        s.initialized, s._sequence_number = case["initialized"], case["seq"]
        cur = case["seq"]
        for _ in range(2):
            n0 = len(written)
            try:
                s.send(knxip.KNXIPFrame.init_from_body(getattr(knxip, case["body"])()))
            except IPSecureError:
                if not ((not case["initialized"] and case["body"] != "SessionRequest") or (case["initialized"] and cur > (1 << 48) - 1)):
                    return True, "send refused without reason"
                continue
            finally:
                if s._keepalive_task:
                    s._keepalive_task.cancel()
            data = written[-1]
            if data[2:4] == b"\x09\x50":
                if not case["initialized"] or int.from_bytes(data[8:14], "big") != cur:
                    return True, f"wrapper carries sequence {int.from_bytes(data[8:14], 'big')} with counter {cur}"
                cur += 1
            elif case["initialized"] or case["body"] != "SessionRequest":
                return True, f"plain {case['body']} sent (initialised={case['initialized']})"
        return False, "ok"
    return asyncio.run(go())
