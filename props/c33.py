"""C33 Outgoing telegrams go out in order, one at a time, and never stall the queue (partial)."""
from __future__ import annotations

ID = "C33"
BOUNDS = {
    "quick": "each loop of TelegramQueue stepped alone (symaio) against a scripted queue: (a) _outgoing_rate_limiter with 3 queued telegrams followed by the stop marker, each telegram one of {group address: send ok / CommunicationError / other XKNXException / ValueError / device processing raises / telegram callback raises; internal address: ok / device processing raises}, rate limit 0 and 20 per second; (b) _telegram_consumer with 3 queued telegrams followed by the stop marker, each one of {incoming ok / incoming with raising callback / incoming with device error (XKNXException, ValueError) / outgoing}; (c) XKNX.stop(): order of join, queue stop and interface stop",
    "thorough": "as quick with 4 telegrams per script",
}
OUTSIDE = "the two loops running concurrently under the real event loop (only their individual step sequences are decided), wall-clock spacing (the limiter's sleep(1/r) task is an inert handle: its creation, duration and the await before the next send are checked, not the passage of time), slow sends"
ASSUMPTIONS = ["'at least 1/r apart' is decomposed into: after each non-internal send a sleep(1/r) task is created, and it is awaited before the next non-internal telegram is sent and before the next sleep task is created"]
EXPLANATION = "C33: the real consumer loops, process_telegram_outgoing/incoming and XKNX.stop run as single coroutines with scripted queues and a scripted interface; every choice of the script is a fork decided by the solver, the checks are on the recorded step sequence."
INTERESTING = ["limiter-script", "consumer-script", "stop"]
REQUIRED_REACH = ["limiter-script", "consumer-script", "stop"]

OUT_SCEN = ["ga-ok", "ga-commerr", "ga-xknxerr", "ga-valueerror", "ga-device-raises", "ga-cb-raises", "internal-ok", "internal-device-raises"]
IN_SCEN = ["in-ok", "in-cb-raises", "in-device-xknxerr", "in-device-valueerror", "out"]


class ScriptQueue:
    def __init__(self, log, name, items):
        self.log, self.name, self.items, self.puts = log, name, list(items), []

    def get(self):
        from symx import aio
        if not self.items:
            def stop():
                raise aio.Stop()
            return aio.Ready(hook=stop)
        item = self.items.pop(0)
        return aio.Ready(value=item, hook=lambda: self.log.append((self.name, "get", item)))

    def put_nowait(self, x):
        self.puts.append(x)
        self.log.append((self.name, "put", x))

    def task_done(self):
        self.log.append((self.name, "task_done"))

    def join(self):
        from symx import aio
        return aio.Ready(hook=lambda: self.log.append((self.name, "join")))

    def empty(self):
        return not self.items


def jobs(tier, seed):
    n = 3 if tier == "quick" else 4
    out = [dict(name=f"limiter-rate{r}-first{i}", kind="limiter", rate=r, first=i, n=n, cost=10) for r in (0, 20) for i in range(len(OUT_SCEN))]
    out += [dict(name=f"consumer-first{i}", kind="consumer", first=i, n=n, cost=5) for i in range(len(IN_SCEN))]
    out.append(dict(name="stop", kind="stop", n=n, cost=1))
    return out


def mk_telegram(i, internal=False, outgoing=True):
    from xknx.dpt import DPTBinary
    from xknx.telegram import GroupAddress, Telegram, TelegramDirection
    from xknx.telegram.address import InternalGroupAddress
    from xknx.telegram.apci import GroupValueWrite
    dst = InternalGroupAddress(f"i-{i}") if internal else GroupAddress(f"1/2/{i + 1}")
    return Telegram(destination_address=dst, direction=TelegramDirection.OUTGOING if outgoing else TelegramDirection.INCOMING, payload=GroupValueWrite(DPTBinary(1)))


def setup(log, rate):
    """A TelegramQueue wired to scripted queues and a scripted interface."""
    import types
    from symx import aio
    from xknx import XKNX
    import xknx.core.telegram_queue as tqm
    xk = XKNX()
    xk.rate_limit = rate
    quiet = types.SimpleNamespace(debug=lambda *a, **k: None, warning=lambda *a, **k: None, info=lambda *a, **k: None, error=lambda *a, **k: None, exception=lambda *a, **k: None)
    tqm.logger = quiet
    tqm.telegram_logger = quiet

    def sleep(d):
        log.append(("sleep-created", d))
        return ("sleep-handle", d)
    tqm.asyncio = aio.asyncio_shim(log, extra=dict(sleep=sleep))
    return xk, tqm


def run_job(job, rep):
    import types
    from symx import aio, core
    from vx.harness import trace_functions
    from xknx.exceptions import CommunicationError, ConversionError

    N = job["n"]

    if job["kind"] == "limiter":
        rate = job["rate"]

        def run(c):
            log = []
            xk, tqm = setup(log, rate)
            scen = [OUT_SCEN[job["first"]]] + [OUT_SCEN[core.concretize(c.fresh_int(f"s{i}", 0, len(OUT_SCEN) - 1))] for i in range(1, N)]
            c.notes["scen"] = scen
            tgs = [mk_telegram(i, internal=s.startswith("internal")) for i, s in enumerate(scen)]
            by_id = {id(t): s for t, s in zip(tgs, scen)}
            tq = xk.telegram_queue
            tq.outgoing_queue = ScriptQueue(log, "outgoing", tgs + [None])
            xk.telegrams = ScriptQueue(log, "telegrams", [])

            def send_telegram(tg):
                s = by_id[id(tg)]
                log.append(("send", tg))
                exc = {"ga-commerr": CommunicationError("down"), "ga-xknxerr": ConversionError("bad"), "ga-valueerror": ValueError("boom")}.get(s)
                return aio.Ready(exc=exc)
            xk.cemi_handler = types.SimpleNamespace(send_telegram=send_telegram)

            def dev_process(tg):
                log.append(("devices", tg))
                if by_id[id(tg)].endswith("device-raises"):
                    raise ConversionError("device")
            xk.devices = types.SimpleNamespace(process=dev_process)

            def cb(tg):
                log.append(("callback", tg))
                if by_id[id(tg)] == "ga-cb-raises":
                    raise RuntimeError("callback")
            tq.register_telegram_received_cb(cb, match_for_outgoing=True)
            f = lambda: aio.drive(tq._outgoing_rate_limiter())
            r = trace_functions(f, rep) if not rep.functions else f()
            return r, log, tgs, scen

        def judge(pr):
            c = pr.ctx
            case = dict(kind="limiter", rate=rate, scen=c.notes.get("scen"))
            if pr.kind != "ok":
                rep.ob("refuted", f"limiter-raises:{type(pr.value).__name__}", case, repr(pr.value)); return
            (how, _), log, tgs, scen = pr.value
            rep.reach["limiter-script"] += 1
            problems = []
            if how != "returned":
                problems.append(f"loop did not end at the stop marker ({how})")
            sends = [e[1] for e in log if e[0] == "send"]
            want_sends = [t for t, s in zip(tgs, scen) if s.startswith("ga")]
            if [id(t) for t in sends] != [id(t) for t in want_sends]:
                problems.append("send order/selection differs from the queue order of non-internal telegrams")
            # internal telegrams and successfully sent ones reach devices and callbacks
            for t, s in zip(tgs, scen):
                reached_dev = any(e[0] == "devices" and e[1] is t for e in log)
                reached_cb = any(e[0] == "callback" and e[1] is t for e in log)
                sent_ok = s in ("ga-ok", "ga-device-raises", "ga-cb-raises")
                want_dev = s.startswith("internal") or sent_ok
                want_cb = (s.startswith("internal") or sent_ok) and not s.endswith("device-raises")
                if reached_dev != want_dev or reached_cb != want_cb:
                    problems.append(f"{s}: devices {reached_dev} callbacks {reached_cb}")
            if log.count(("outgoing", "task_done")) != len(tgs) + 1 or log.count(("telegrams", "task_done")) != len(tgs):
                problems.append(f"task_done accounting: outgoing {log.count(('outgoing', 'task_done'))}, telegrams {log.count(('telegrams', 'task_done'))} for {len(tgs)} telegrams")
            if rate:
                # between two sends: await of the previous sleep task, then creation of the next one with 1/rate
                idx = [i for i, e in enumerate(log) if e[0] == "send"]
                prev = -1
                first = True
                for i in idx:
                    seg = [e[0] for e in log[prev + 1:i] if e[0] in ("await_task", "create_task", "sleep-created")]
                    want = ["sleep-created", "create_task"] if first else ["await_task", "sleep-created", "create_task"]
                    if seg != want:
                        problems.append(f"limiter steps before send #{idx.index(i)}: {seg}")
                    first = False
                    prev = i
                if any(e[0] == "sleep-created" and e[1] != 1 / rate for e in log):
                    problems.append("sleep duration is not 1/rate_limit")
            elif any(e[0] in ("create_task", "sleep-created") for e in log):
                problems.append("rate limiter active although rate_limit is 0")
            rep.ob("refuted" if problems else "proved", "limiter:" + (problems[0].split(":")[0] if problems else "ok"), case, "; ".join(problems))
            rep.sample(dict(job=job["name"], witness=case), limit=1)
        _, st = core.explore(run, on_path=judge, stop=rep.enough, timeout=600)
        rep.add_stats(st)
        return

    if job["kind"] == "consumer":
        def run(c):
            log = []
            xk, tqm = setup(log, 0)
            scen = [IN_SCEN[job["first"]]] + [IN_SCEN[core.concretize(c.fresh_int(f"s{i}", 0, len(IN_SCEN) - 1))] for i in range(1, N)]
            c.notes["scen"] = scen
            tgs = [mk_telegram(i, outgoing=(s == "out")) for i, s in enumerate(scen)]
            by_id = {id(t): s for t, s in zip(tgs, scen)}
            tq = xk.telegram_queue
            tq.outgoing_queue = ScriptQueue(log, "outgoing", [])
            xk.telegrams = ScriptQueue(log, "telegrams", tgs + [None])

            def dev_process(tg):
                log.append(("devices", tg))
                s = by_id[id(tg)]
                if s == "in-device-xknxerr":
                    raise ConversionError("device")
                if s == "in-device-valueerror":
                    raise ValueError("device")
            xk.devices = types.SimpleNamespace(process=dev_process)

            def cb(tg):
                log.append(("callback", tg))
                if by_id[id(tg)] == "in-cb-raises":
                    raise RuntimeError("callback")
            tq.register_telegram_received_cb(cb)
            f = lambda: aio.drive(tq._telegram_consumer())
            r = trace_functions(f, rep) if not rep.functions else f()
            return r, log, tgs, scen, tq.outgoing_queue.puts

        def judge(pr):
            c = pr.ctx
            case = dict(kind="consumer", scen=c.notes.get("scen"))
            if pr.kind != "ok":
                rep.ob("refuted", f"consumer-raises:{type(pr.value).__name__}", case, repr(pr.value)); return
            (how, _), log, tgs, scen, puts = pr.value
            rep.reach["consumer-script"] += 1
            problems = []
            if how != "returned":
                problems.append(f"loop did not end at the stop marker ({how})")
            want_puts = [t for t, s in zip(tgs, scen) if s == "out"] + [None]
            if [id(x) for x in puts] != [id(x) for x in want_puts]:
                problems.append("outgoing telegrams not forwarded in order (followed by the stop marker)")
            n_in = sum(1 for s in scen if s != "out")
            if log.count(("telegrams", "task_done")) != n_in + 1:
                problems.append(f"task_done accounting: {log.count(('telegrams', 'task_done'))} for {n_in} incoming telegrams + stop marker")
            for t, s in zip(tgs, scen):
                if s != "out":
                    if not any(e[0] == "callback" and e[1] is t for e in log) or not any(e[0] == "devices" and e[1] is t for e in log):
                        problems.append(f"{s}: callbacks/devices not both reached")
            if ("outgoing", "join") not in log:
                problems.append("stop marker: outgoing queue not joined")
            rep.ob("refuted" if problems else "proved", "consumer:" + (problems[0].split(":")[0] if problems else "ok"), case, "; ".join(problems))
            rep.sample(dict(job=job["name"], witness=case), limit=1)
        _, st = core.explore(run, on_path=judge, stop=rep.enough, timeout=600)
        rep.add_stats(st)
        return

    def run(c):
        log = []
        xk, tqm = setup(log, 0)
        xk.telegrams = ScriptQueue(log, "telegrams", [])
        xk.telegram_queue = types.SimpleNamespace(stop=lambda: aio.Ready(hook=lambda: log.append(("queue.stop",))))
        xk.knxip_interface = types.SimpleNamespace(stop=lambda: aio.Ready(hook=lambda: log.append(("interface.stop",))))
        xk.task_registry = types.SimpleNamespace(stop=lambda: log.append(("tasks.stop",)))
        xk.state_updater = types.SimpleNamespace(stop=lambda: log.append(("updater.stop",)))
        f = lambda: aio.drive(xk.stop())
        trace_functions(f, rep) if not rep.functions else f()
        return log, xk.started.is_set()

    def judge(pr):
        case = dict(kind="stop")
        if pr.kind != "ok":
            rep.ob("refuted", f"stop-raises:{type(pr.value).__name__}", case, repr(pr.value)); return
        log, started = pr.value
        rep.reach["stop"] += 1
        order = [e for e in log if e in (("telegrams", "join"), ("queue.stop",), ("interface.stop",))]
        ok = order == [("telegrams", "join"), ("queue.stop",), ("interface.stop",)] and not started
        rep.ob("proved" if ok else "refuted", "stop-order", case, repr(order))
    _, st = core.explore(run, on_path=judge, timeout=60)
    rep.add_stats(st)


def replay(case):
    """Concrete re-run with the real event loop: the scripted scenario is fed through real asyncio queues."""
    import asyncio
    from xknx import XKNX
    from xknx.exceptions import CommunicationError, ConversionError

    async def go():
        import types
        if case["kind"] == "stop":
            order = []

            class X(XKNX):
                async def join(self):
                    order.append("join")
                    await super().join()
            xk = X()
            real_q = xk.telegram_queue

            async def qstop():
                order.append("queue.stop")
                await real_q.stop()
            await real_q.start()
            xk.telegram_queue = types.SimpleNamespace(stop=qstop)
            await asyncio.wait_for(xk.stop(), 2)
            return (order != ["join", "queue.stop"]), f"stop order {order}"
        xk = XKNX()
        scen = case["scen"]
        xk.rate_limit = case.get("rate", 0)
        log = []
        if case["kind"] == "limiter":
            tgs = [mk_telegram(i, internal=s.startswith("internal")) for i, s in enumerate(scen)]
        else:
            tgs = [mk_telegram(i, outgoing=(s == "out")) for i, s in enumerate(scen)]
        by_id = {id(t): s for t, s in zip(tgs, scen)}
        loop = asyncio.get_running_loop()

        async def send_telegram(tg):
            log.append(("send", id(tg), loop.time()))
            s = by_id[id(tg)]
            exc = {"ga-commerr": CommunicationError("down"), "ga-xknxerr": ConversionError("bad"), "ga-valueerror": ValueError("boom")}.get(s)
            if exc:
                raise exc
        xk.cemi_handler = types.SimpleNamespace(send_telegram=send_telegram)

        class Devs:
            def process(self, tg):
                log.append(("devices", id(tg)))
                s = by_id[id(tg)]
                if s.endswith("device-raises") or s == "in-device-xknxerr":
                    raise ConversionError("device")
                if s == "in-device-valueerror":
                    raise ValueError("device")

            def async_remove_device_tasks(self):
                pass
        xk.devices = Devs()

        def cb(tg):
            log.append(("callback", id(tg)))
            if by_id[id(tg)].endswith("cb-raises"):
                raise RuntimeError("callback")
        xk.telegram_queue.register_telegram_received_cb(cb, match_for_outgoing=True)
        await xk.telegram_queue.start()
        for t in tgs:
            xk.telegrams.put_nowait(t)
        try:
            await asyncio.wait_for(xk.join(), 5)
            await asyncio.wait_for(xk.telegram_queue.stop(), 5)
        except asyncio.TimeoutError:
            return True, f"{case}: join()/stop() did not return"
        sends = [e for e in log if e[0] == "send"]
        want = [id(t) for t, s in zip(tgs, scen) if s.startswith("ga") or s == "out"]
        if [e[1] for e in sends] != want:
            return True, f"{case}: send order {len(sends)} of {len(want)} expected or reordered"
        if xk.rate_limit:
            gaps = [b[2] - a[2] for a, b in zip(sends, sends[1:])]
            if any(g < 1 / xk.rate_limit * 0.9 for g in gaps):
                return True, f"{case}: sends only {['%.3f' % g for g in gaps]} s apart with rate limit {xk.rate_limit}/s"
        for t, s in zip(tgs, scen):
            sent_ok = s in ("ga-ok", "ga-device-raises", "ga-cb-raises", "out")
            reached = any(e[0] == "devices" and e[1] == id(t) for e in log)
            if (s.startswith("internal") or s.startswith("in-") or sent_ok) != reached:
                return True, f"{case}: telegram {s} reached devices: {reached}"
        return False, "ok"
    return asyncio.run(go())
