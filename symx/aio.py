"""symaio: drive ONE real coroutine against a nondeterministic environment.

The coroutine object of the code under test is stepped with send(None); everything it awaits must be an awaitable of this
module (completing immediately with a value chosen by the environment, or raising).  The event loop is not emulated:
tasks are inert handles.  Interleavings of several live tasks are outside this technique.
"""
from __future__ import annotations

import types


class Stop(BaseException):
    """Raised by the environment to end the exploration of a coroutine at a bounded depth."""


class Ready:
    def __init__(self, value=None, exc=None, hook=None):
        self.value, self.exc, self.hook = value, exc, hook

    def __await__(self):
        if self.hook is not None:
            self.hook()
        if self.exc is not None:
            raise self.exc
        return self.value
        yield  # pragma: no cover - makes this a generator


def drive(coro):
    try:
        coro.send(None)
    except StopIteration as e:
        return ("returned", e.value)
    except Stop:
        coro.close()
        return ("stopped", None)
    raise AssertionError("coroutine suspended on a real awaitable (not modelled)")


class InertTask:
    """Handle returned by the create_task shim: the coroutine is NOT run.  Awaiting it completes immediately after calling
    `on_await` (the environment's rendering of what the task would have done), then the done callbacks."""
    on_await = None

    def __init__(self, log, coro=None):
        self.log = log
        if coro is not None and hasattr(coro, "close"):
            coro.close()
        self.cancelled_ = False
        self.callbacks = []
        log.append(("create_task",))

    def add_done_callback(self, cb):
        self.callbacks.append(cb)

    def __await__(self):
        self.log.append(("await_task",))
        if InertTask.on_await is not None:
            InertTask.on_await(self)
        for cb in self.callbacks:
            cb(self)
        return None
        yield  # pragma: no cover

    def cancel(self):
        self.cancelled_ = True
        self.log.append(("task.cancel",))

    def done(self):
        return False


def asyncio_shim(log, sleep_budget=None, extra=None):
    """A stand-in for the `asyncio` module name inside one xknx module."""
    import asyncio as real
    state = {"sleeps": 0}

    def sleep(d):
        def hook():
            log.append(("sleep", d))
            state["sleeps"] += 1
            if sleep_budget is not None and state["sleeps"] > sleep_budget:
                raise Stop()
        return Ready(hook=hook)

    ns = types.SimpleNamespace(
        sleep=sleep, create_task=lambda coro, name=None: InertTask(log, coro), current_task=lambda: None,
        Task=real.Task, Future=real.Future, Event=real.Event, Lock=real.Lock, CancelledError=real.CancelledError,
        TimeoutError=real.TimeoutError, InvalidStateError=real.InvalidStateError, Queue=real.Queue, QueueEmpty=real.QueueEmpty,
        get_running_loop=real.get_running_loop, get_event_loop=real.get_event_loop, timeout=real.timeout, Protocol=real.Protocol,
        DatagramProtocol=real.DatagramProtocol, BaseTransport=real.BaseTransport, Transport=real.Transport, DatagramTransport=real.DatagramTransport,
        TimerHandle=real.TimerHandle, gather=real.gather, wait_for=real.wait_for, iscoroutinefunction=real.iscoroutinefunction,
    )
    for k, v in (extra or {}).items():
        setattr(ns, k, v)
    return ns
