"""symcrypto: AES as an uninterpreted function E : BV128 x BV128 -> BV128; CBC and CTR *mode logic* in Python.

Installed over the names Cipher / algorithms / modes of xknx.secure.security_primitives, so that the real
calculate_message_authentication_code_cbc / encrypt_data_ctr / decrypt_ctr run symbolically on top of it.
Decides structural facts (what is fed to the cipher, order, padding, counters, truncation) for every key and message;
says nothing about the strength of AES.  On fully concrete inputs the real AES is used.
"""
from __future__ import annotations

import builtins

import z3

from . import core
from .core import SymBytes, SymInt

E = z3.Function("AES", z3.BitVecSort(128), z3.BitVecSort(128), z3.BitVecSort(128))
STATS = {"E_calls": 0}


def to_bv(block):
    parts = []
    for e in block:
        if isinstance(e, int):
            parts.append(z3.BitVecVal(e, 8))
        else:
            parts.append(z3.Extract(7, 0, core.zint(e)))
    return z3.Concat(*parts) if len(parts) > 1 else parts[0]


def from_bv(bv, n=16):
    out = []
    w = bv.size()
    for i in range(n):
        b = z3.simplify(z3.Extract(w - 1 - 8 * i, w - 8 - 8 * i, bv))
        out.append(b.as_long() if z3.is_bv_value(b) else SymInt(z3.ZeroExt(core.W - 8, b), 0, 255))
    return out


def _concrete(xs):
    return all(isinstance(e, int) for e in xs)


def _real_ecb(key, block):
    from cryptography.hazmat.primitives.ciphers import Cipher, algorithms, modes
    enc = Cipher(algorithms.AES(builtins.bytes(key)), modes.ECB()).encryptor()  # noqa: S305 - single-block primitive
    return list(enc.update(builtins.bytes(block)) + enc.finalize())


def enc_block(key, block):
    STATS["E_calls"] += 1
    if _concrete(key) and _concrete(block):
        return _real_ecb(key, block)
    return from_bv(E(to_bv(key), to_bv(block)))


def xor(a, b):
    return [x ^ y for x, y in zip(a, b)]


class _AES:
    def __init__(self, key):
        self.key = list(key)
        if len(self.key) not in (16, 24, 32):
            raise ValueError("Invalid key size (%d) for AES." % (len(self.key) * 8))


class _CBC:
    def __init__(self, iv):
        self.iv = list(iv)
        if len(self.iv) != 16:
            raise ValueError("Invalid IV size")


class _CTR:
    def __init__(self, nonce):
        self.nonce = list(nonce)
        if len(self.nonce) != 16:
            raise ValueError("Invalid nonce size")


class algorithms:
    AES = _AES


class modes:
    CBC = _CBC
    CTR = _CTR


class _Ctx:
    def __init__(self, alg, mode):
        self.key = alg.key
        self.mode = mode
        if isinstance(mode, _CBC):
            self.prev = list(mode.iv)
            self.buf = []
        else:
            self.ctr = list(mode.nonce)
            self.ks = []

    def _inc(self):
        # 128-bit big-endian increment (what cryptography's CTR does)
        if _concrete(self.ctr):
            v = (builtins.int.from_bytes(builtins.bytes(self.ctr), "big") + 1) % (1 << 128)
            self.ctr = list(v.to_bytes(16, "big"))
        else:
            self.ctr = from_bv(to_bv(self.ctr) + 1)

    def update(self, data):
        data = list(data)
        out = []
        if isinstance(self.mode, _CBC):
            self.buf += data
            while len(self.buf) >= 16:
                blk, self.buf = self.buf[:16], self.buf[16:]
                c = enc_block(self.key, xor(blk, self.prev))
                self.prev = c
                out += c
        else:
            for d in data:
                if not self.ks:
                    self.ks = enc_block(self.key, self.ctr)
                    self._inc()
                out.append(d ^ self.ks.pop(0))
        return SymBytes(out) if core.has_sym(out) else builtins.bytes(out)

    def finalize(self):
        if isinstance(self.mode, _CBC) and self.buf:
            raise ValueError("The length of the provided data is not a multiple of the block length.")
        return b""


class Cipher:
    def __init__(self, alg, mode):
        self.alg, self.mode = alg, mode

    def encryptor(self):
        return _Ctx(self.alg, self.mode)

    def decryptor(self):
        if not isinstance(self.mode, _CTR):
            raise core.Unsupported("CBC decryption is not modelled")
        return _Ctx(self.alg, self.mode)


def install():
    import xknx.secure.security_primitives as sp
    sp.Cipher, sp.algorithms, sp.modes = Cipher, algorithms, modes


def selfcheck():
    """Mode logic agrees with the real library on concrete vectors (run by harnesses at start-up)."""
    import os
    from cryptography.hazmat.primitives.ciphers import Cipher as RC, algorithms as RA, modes as RM
    for n in (0, 1, 15, 16, 17, 40):
        key, iv, data = os.urandom(16), os.urandom(16), os.urandom(n)
        r = RC(RA.AES(key), RM.CTR(iv)).encryptor()
        want = r.update(data) + r.finalize()
        m = Cipher(algorithms.AES(key), modes.CTR(iv)).encryptor()
        got = builtins.bytes(m.update(data)) + m.finalize()
        assert got == want, "CTR shim mismatch"
        data = os.urandom(16 * (n % 4))
        r = RC(RA.AES(key), RM.CBC(iv)).encryptor()
        want = r.update(data) + r.finalize()
        m = Cipher(algorithms.AES(key), modes.CBC(iv)).encryptor()
        got = builtins.bytes(m.update(data)) + m.finalize()
        assert got == want, "CBC shim mismatch"
    # counter carry
    key, iv = os.urandom(16), b"\x00" * 14 + b"\xff\xff"
    data = os.urandom(40)
    r = RC(RA.AES(key), RM.CTR(iv)).encryptor()
    m = Cipher(algorithms.AES(key), modes.CTR(iv)).encryptor()
    assert builtins.bytes(m.update(data)) == r.update(data), "CTR carry mismatch"
    return 14
