"""C39 Device commands loop back to the state they requested."""
from __future__ import annotations

ID = "C39"
BOUNDS = {
    "quick": "per device setter TWO consecutive commands with independent symbolic arguments; after each, every telegram the device queued is processed by the device as outgoing and the reported state is compared with the request. Cells: Switch on/off (invert both ways); Light on/off, brightness 0..255, RGB and RGBW colours 0..255 per channel, xyY (colour k/10 with k 0..10 or None, brightness 0..255 or None), tunable white 0..255, colour temperature 0..65535; Cover position/angle 0..100 with both invert settings (reported: target position / angle); Fan speed percent 0..100 and steps 0..max_step (3), oscillation; Climate target temperature without setpoint shift (k/10, 5..40), setpoint shift DPT 6.010 with step 0.1/0.25/0.5/1 (offset = n*step, n -60..60 clipped to -6..6 K; target temperature = base + n*step) and DPT 9.002 (offset k/10); ClimateMode operation/controller mode over every enum member; NumericValue (percent, 2byte_unsigned, temperature k/10), RawValue (1 and 2 octets); 45 s per cell, 40 s per solver query",
    "thorough": "as quick with 240 s per cell and 120 s per query",
}
OUTSIDE = "cover travel-time estimation (C40), auto-stop and periodic tasks (task registry replaced by an inert recorder); individual-colour lights (debounce task); HS colour; DateTime/Notification/ExposeSensor devices; configurations other than the listed ones; cells reported as inconclusive (solver budget)"
ASSUMPTIONS = [
    "'nearest representable': |reported - requested| <= half the datapoint step (setpoint shift DPT 6.010: requests are multiples n*step of the step and must be reported as n*step up to 1e-9; DPT 9 temperatures below 20.48: 0.005, below 81.92: 0.02; xyY colour: 1e-4); integers, booleans and enums must be equal",
    "round(x, ndigits) in the xyY decoder is over-approximated (any double within half a unit of the last digit); counterexamples are replayed and only counted if they reproduce",
]
ABSTRACT_SIGS = ("state-differs:Light.xyy",)
EXPLANATION = "C39: the real device setters, RemoteValue.set/to_knx, the telegram queue entries and Device.process/RemoteValue.process/from_knx run on symbolic setter arguments; z3 decides whether a request exists whose loop-back state differs from it."
INTERESTING = ["looped"]
REQUIRED_REACH = ["looped"]


class InertRegistry:
    """Stand-in for xknx.task_registry: remembers started tasks, never runs them."""

    def __init__(self):
        self.started = []

    def start_task(self, task):
        self.started.append(task)

    def remove_task(self, task):
        if task in self.started:
            self.started.remove(task)

    def background(self, coro):
        coro.close()


def cells():
    """name -> dict(make, act, observe, args, tol). args: list of (kind, lo, hi)."""
    out = {}

    def add(name, make, act, observe, args, tol=None, pre=None, rounds=2):
        out[name] = dict(make=make, act=act, observe=observe, args=args, tol=tol, pre=pre, rounds=rounds)

    def switch(inv):
        from xknx.devices import Switch
        return lambda xk: Switch(xk, "s", group_address="1/1/1", invert=inv)
    for inv in (False, True):
        add(f"Switch.state[invert={inv}]", switch(inv), lambda d, a: d.set_on() if a[0] else d.set_off(), lambda d: d.state, [("bool", 0, 1)])

    def light(**kw):
        from xknx.devices import Light
        return lambda xk: Light(xk, "l", group_address_switch="1/1/1", **kw)
    add("Light.state", light(), lambda d, a: d.set_on() if a[0] else d.set_off(), lambda d: d.state, [("bool", 0, 1)])
    add("Light.brightness", light(group_address_brightness="1/1/2"), lambda d, a: d.set_brightness(a[0]), lambda d: d.current_brightness, [("cint", 0, 255)])
    add("Light.color", light(group_address_color="1/1/3"), lambda d, a: d.set_color((a[0], a[1], a[2])), lambda d: d.current_color[0], [("int", 0, 255)] * 3)
    add("Light.rgbw", light(group_address_rgbw="1/1/4"), lambda d, a: d.set_color((a[0], a[1], a[2]), a[3]), lambda d: (d.current_color[0] or (None,) * 3) + (d.current_color[1],), [("int", 0, 255)] * 4)
    add("Light.tunable_white", light(group_address_tunable_white="1/1/5"), lambda d, a: d.set_tunable_white(a[0]), lambda d: d.current_tunable_white, [("cint", 0, 255)])
    add("Light.color_temperature", light(group_address_color_temperature="1/1/6"), lambda d, a: d.set_color_temperature(a[0]), lambda d: d.current_color_temperature, [("int", 0, 65535)])

    def xyy_act(d, a):
        from xknx.dpt.dpt_242 import XYYColor
        return d.set_xyy_color(XYYColor(color=(a[0], a[1]), brightness=a[2]))

    def xyy_obs(d):
        v = d.current_xyy_color
        return None if v is None else ((v.color or (None, None)) + (v.brightness,))
    add("Light.xyy", light(group_address_xyy_color="1/1/7"), xyy_act, xyy_obs, [("ctenths", 0, 1), ("ctenths", 0, 1), ("int", 0, 255)], tol=1e-4)

    def xyy_b_act(d, a):
        from xknx.dpt.dpt_242 import XYYColor
        return d.set_xyy_color(XYYColor(color=None, brightness=a[0]))
    add("Light.xyy-brightness-only", light(group_address_xyy_color="1/1/7"), xyy_b_act, lambda d: None if d.current_xyy_color is None else d.current_xyy_color.brightness, [("int", 0, 255)])

    def cover(**kw):
        from xknx.devices import Cover
        return lambda xk: Cover(xk, "c", group_address_long="1/2/1", group_address_position="1/2/2", group_address_angle="1/2/3", **kw)
    for inv in (False, True):
        add(f"Cover.position[invert={inv}]", cover(invert_position=inv), lambda d, a: d.set_position(a[0]), lambda d: d.travelcalculator.travel_to_position if hasattr(d.travelcalculator, "travel_to_position") else d.travelcalculator._travel_to_position, [("cint", 0, 100)])
        add(f"Cover.angle[invert={inv}]", cover(invert_angle=inv), lambda d, a: d.set_angle(a[0]), lambda d: d.current_angle(), [("cint", 0, 100)])

    def fan(**kw):
        from xknx.devices import Fan
        return lambda xk: Fan(xk, "f", group_address_speed="1/3/1", group_address_oscillation="1/3/2", **kw)
    add("Fan.speed[percent]", fan(), lambda d, a: d.set_speed(a[0]), lambda d: d.current_speed, [("cint", 0, 100)])
    add("Fan.speed[steps]", fan(max_step=3), lambda d, a: d.set_speed(a[0]), lambda d: d.current_speed, [("int", 0, 3)])
    add("Fan.oscillation", fan(), lambda d, a: d.set_oscillation(a[0]), lambda d: d.current_oscillation, [("bool", 0, 1)])

    def climate(**kw):
        from xknx.devices import Climate
        return lambda xk: Climate(xk, "k", **kw)
    add("Climate.target_temperature[direct]", climate(group_address_target_temperature="1/4/1"), lambda d, a: d.set_target_temperature(a[0]), lambda d: d.target_temperature.value, [("ctenths", 5, 40)], tol=0.02 + 1e-9)

    def shift_pre(step, mode):
        def pre(xk, d):
            # the state a climate device has after reading its group addresses: target 21.0, shift 0
            from xknx.dpt import DPTArray, DPTTemperature
            from xknx.telegram import GroupAddress, Telegram, TelegramDirection
            from xknx.telegram.apci import GroupValueWrite
            from symx import aio
            for ga, payload in (("1/4/2", DPTTemperature.to_knx(21.0)), ("1/4/3", DPTArray((0,)) if mode == "DPT6010" else DPTTemperature.to_knx(0.0))):
                r = d.process(Telegram(destination_address=GroupAddress(ga), direction=TelegramDirection.INCOMING, payload=GroupValueWrite(payload)))
                if hasattr(r, "send"):
                    aio.drive(r)
        return pre

    for step in (0.1, 0.25, 0.5, 1):
        def mk(step=step):
            from xknx.devices import Climate
            from xknx.remote_value.remote_value_setpoint_shift import SetpointShiftMode
            return lambda xk: Climate(xk, "k", group_address_target_temperature_state="1/4/2", group_address_setpoint_shift="1/4/3", setpoint_shift_mode=SetpointShiftMode.DPT6010,
                                      temperature_step=step, setpoint_shift_max=6, setpoint_shift_min=-6)
        add(f"Climate.setpoint_shift[DPT6010,step={step}]", mk(), (lambda step: lambda d, a: d.set_setpoint_shift(a[0] * step))(step), lambda d: d.setpoint_shift, [("cint", -60, 60)],
            tol=("shift", step, 6), pre=shift_pre(step, "DPT6010"))
        add(f"Climate.target_temperature[DPT6010,step={step}]", mk(), (lambda step: lambda d, a: d.set_target_temperature(21.0 + a[0] * step))(step), lambda d: d.setpoint_shift, [("cint", -60, 60)],
            tol=("shift-target", step, 6), pre=shift_pre(step, "DPT6010"), rounds=1)   # one command: the actuator's new target temperature report is not simulated

    def mk9():
        from xknx.devices import Climate
        from xknx.remote_value.remote_value_setpoint_shift import SetpointShiftMode
        return lambda xk: Climate(xk, "k", group_address_target_temperature_state="1/4/2", group_address_setpoint_shift="1/4/3", setpoint_shift_mode=SetpointShiftMode.DPT9002,
                                  setpoint_shift_max=6, setpoint_shift_min=-6)
    add("Climate.setpoint_shift[DPT9002]", mk9(), lambda d, a: d.set_setpoint_shift(a[0]), lambda d: d.setpoint_shift, [("ctenths", -6, 6)], tol=0.005 + 1e-9, pre=shift_pre(0.1, "DPT9002"))

    def climate_mode(**kw):
        from xknx.devices import ClimateMode
        return lambda xk: ClimateMode(xk, "m", **kw)
    add("ClimateMode.operation_mode", climate_mode(group_address_operation_mode="1/5/1"), lambda d, a: d.set_operation_mode(a[0]), lambda d: d.operation_mode, [("enum:xknx.dpt.dpt_20:HVACOperationMode", 0, 0)])
    add("ClimateMode.controller_mode", climate_mode(group_address_controller_mode="1/5/2"), lambda d, a: d.set_controller_mode(a[0]), lambda d: d.controller_mode, [("enum:xknx.dpt.dpt_20:HVACControllerMode", 0, 0)])

    def numeric(vt):
        from xknx.devices import NumericValue
        return lambda xk: NumericValue(xk, "n", group_address="1/6/1", value_type=vt)
    add("NumericValue[percent]", numeric("percent"), lambda d, a: d.set(a[0]), lambda d: d.resolve_state(), [("cint", 0, 100)])
    add("NumericValue[2byte_unsigned]", numeric("2byte_unsigned"), lambda d, a: d.set(a[0]), lambda d: d.resolve_state(), [("int", 0, 65535)])
    add("NumericValue[temperature]", numeric("temperature"), lambda d, a: d.set(a[0]), lambda d: d.resolve_state(), [("ctenths", -20, 20)], tol=0.005 + 1e-9)

    def raw(n):
        from xknx.devices import RawValue
        return lambda xk: RawValue(xk, "r", payload_length=n, group_address="1/7/1")
    add("RawValue[1]", raw(1), lambda d, a: d.set(a[0]), lambda d: d.resolve_state(), [("int", 0, 255)])
    add("RawValue[2]", raw(2), lambda d, a: d.set(a[0]), lambda d: d.resolve_state(), [("int", 0, 65535)])
    return out


def jobs(tier, seed):
    budget = (45, 40) if tier == "quick" else (240, 120)
    names = list(cells())
    return [dict(name=n, cell=n, budget=budget, cost=100 if ("Climate." in n or "xyy" in n or "temperature]" in n) else 10) for n in names]


def mk_arg(c, idx, rnd, kind, lo, hi, two_rounds=True):
    """Symbolic setter argument -> (value, json(model))."""
    import importlib
    from symx import core
    tag = f"r{rnd}a{idx}"
    if kind == "int":
        v = c.fresh_int(tag, lo, hi)
        return v, lambda m: core.model_val(m, v)
    if kind == "bool":
        b = c.fresh_bool(tag)
        return b, lambda m: bool(core.model_val(m, b))
    if kind in ("cint", "ctenths"):
        # small domains feeding float kernels: every value is its own path (exhaustive forking decided by the solver);
        # the first command is restricted to the two ends and the middle of the range
        scale = 10 if kind == "ctenths" else 1
        k = c.fresh_int(tag, lo * scale, hi * scale)
        if rnd == 0 and two_rounds:
            import z3
            c.add(z3.Or(k.z == lo * scale, k.z == hi * scale, k.z == ((lo + hi) // 2) * scale))
        kv = core.concretize(k)
        return (kv / 10, lambda m: dict(tenths=kv)) if kind == "ctenths" else (kv, lambda m: kv)
    if kind == "tenths":
        k = c.fresh_int(tag + "_tenths", lo * 10, hi * 10)
        return k / 10, lambda m: dict(tenths=core.model_val(m, k))
    if kind.startswith("enum:"):
        _, modname, en = kind.split(":")
        members = list(getattr(importlib.import_module(modname), en))
        i = core.concretize(c.fresh_int(tag + "_member", 0, len(members) - 1))
        return members[i], lambda m: dict(enum=f"{modname}:{en}", member=members[i].name)
    raise NotImplementedError(kind)


def conc_arg(j):
    import importlib
    if isinstance(j, dict) and "tenths" in j:
        return j["tenths"] / 10
    if isinstance(j, dict) and "enum" in j:
        modname, en = j["enum"].split(":")
        return getattr(importlib.import_module(modname), en)[j["member"]]
    return j


def requested_of(name, args):
    """What the device should report for the given setter arguments (concrete or symbolic)."""
    if name.startswith("Climate.setpoint_shift[DPT6010") or name.startswith("Climate.target_temperature[DPT6010"):
        return None          # judged by tolerance against n*step, see within()
    if len(args) == 1:
        return args[0]
    return tuple(args)


def loop_once(xk, dev, coro, drive):
    """Run the setter, then feed every queued telegram back to the device as outgoing."""
    drive(coro)
    n = 0
    while not xk.telegrams.empty():
        tg = xk.telegrams.get_nowait()
        drive(dev.process(tg))
        n += 1
    return n


def run_job(job, rep):
    import types
    import z3
    from symx import aio, core, fp
    from vx.harness import trace_functions
    from vx.util import sym_eq
    from xknx import XKNX
    import xknx.remote_value.remote_value as rvmod
    import xknx.devices.climate as climod

    fp.MODE["mode"] = "exact"
    fp.MODE["round_ndigits"] = "relaxed"
    budget, qbudget = job["budget"]
    core.QUERY_TIMEOUT_MS[0] = qbudget * 1000
    quiet = types.SimpleNamespace(debug=lambda *a, **k: None, warning=lambda *a, **k: None, info=lambda *a, **k: None, exception=lambda *a, **k: None)
    rvmod.logger = quiet
    climod.logger = quiet
    name = job["cell"]
    cell = cells()[name]
    drive = lambda coro: aio.drive(coro)[1] if coro is not None and hasattr(coro, "send") else None

    def within(reported, requested, args, tol):
        """Symbolic/concrete condition 'reported is the requested value or its nearest representable one'."""
        if isinstance(tol, tuple):
            kind, step, lim = tol
            n = args[0]
            want = n * step                       # the requested offset as the caller computes it
            lo, hi = -lim, lim                    # Climate.validate_value clips to the configured shift range
            if reported is None:
                return False
            clipped = core.ite(want < lo, lo, core.ite(want > hi, hi, want)) if core.is_sym(want) or isinstance(want, fp.SymFloat) else min(max(want, lo), hi)
            d = reported - clipped
            return core.sym_and(d <= 1e-9, d >= -1e-9)     # requests are exact multiples of the step: the nearest representable value is the request
        if isinstance(requested, tuple):
            if not isinstance(reported, tuple) or len(reported) != len(requested):
                return False
            return core.sym_and(*[within(r, q, args, tol) for r, q in zip(reported, requested)])
        if reported is None or requested is None:
            return reported is requested
        if isinstance(requested, (float, fp.SymFloat)) or isinstance(reported, (float, fp.SymFloat)):
            if tol is None:
                return sym_eq(reported, requested)
            d = reported - requested
            return core.sym_and(d <= tol, d >= -tol)
        return sym_eq(reported, requested)

    def run(c):
        xk = XKNX()
        xk.task_registry = InertRegistry()
        dev = cell["make"](xk)
        if cell["pre"]:
            cell["pre"](xk, dev)
        rounds = []
        for rnd in range(cell["rounds"]):
            args, js = [], []
            for i, (kind, lo, hi) in enumerate(cell["args"]):
                v, j = mk_arg(c, i, rnd, kind, lo, hi, cell["rounds"] == 2)
                args.append(v); js.append(j)
            f = lambda: loop_once(xk, dev, cell["act"](dev, args), drive)
            n = trace_functions(f, rep) if rnd == 0 and not rep.functions else f()
            rounds.append((args, js, n, cell["observe"](dev)))
        return rounds

    def judge(pr):
        c = pr.ctx
        if pr.kind in ("unsupported", "timeout"):
            rep.inconcl(f"{name}: {pr.kind} {pr.value}"); return
        m = c.current_model()
        if pr.kind == "raise":
            rep.ob("refuted", f"setter-raises:{name}:{type(pr.value).__name__}", dict(cell=name, rounds=[]), repr(pr.value)); return
        rounds = pr.value
        mcase = lambda mm: dict(cell=name, rounds=[[j(mm) for j in js] for _, js, _, _ in rounds])
        conds = []
        for args, js, n, reported in rounds:
            if n == 0:
                rep.ob("refuted", f"nothing-sent:{name}", mcase(m), "setter queued no telegram"); return
            conds.append(within(reported, requested_of(name, args), args, cell["tol"]))
        rep.reach["looped"] += 1
        st, mm = c.prove(core.sym_and(*conds))
        rep.ob(st, f"state-differs:{name}", mcase(mm) if mm is not None else mcase(m), "reported state after the loop-back differs from the request")
        rep.sample(dict(cell=name, witness=mcase(m)["rounds"]), limit=1)
    _, st = core.explore(run, on_path=judge, stop=rep.enough, timeout=budget, path_timeout=qbudget)
    rep.add_stats(st)


def replay(case):
    import asyncio
    from xknx import XKNX
    name = case["cell"]
    cell = cells()[name]

    async def go():
        xk = XKNX()
        xk.task_registry = InertRegistry()
        dev = cell["make"](xk)
        if cell["pre"]:
            # the pre-state uses symx.aio only to step coroutines; do the same with plain awaits here
            from xknx.dpt import DPTArray, DPTTemperature
            from xknx.telegram import GroupAddress, Telegram, TelegramDirection
            from xknx.telegram.apci import GroupValueWrite
            mode9 = "DPT9002" in name
            for ga, payload in (("1/4/2", DPTTemperature.to_knx(21.0)), ("1/4/3", DPTTemperature.to_knx(0.0) if mode9 else DPTArray((0,)))):
                r = dev.process(Telegram(destination_address=GroupAddress(ga), direction=TelegramDirection.INCOMING, payload=GroupValueWrite(payload)))
                if asyncio.iscoroutine(r):
                    await r
        for r_i, js in enumerate(case["rounds"]):
            args = [conc_arg(j) for j in js]
            try:
                r = cell["act"](dev, args)
                if asyncio.iscoroutine(r):
                    await r
                n = 0
                while not xk.telegrams.empty():
                    r = dev.process(xk.telegrams.get_nowait())
                    if asyncio.iscoroutine(r):
                        await r
                    n += 1
            except Exception as e:  # noqa: BLE001
                return True, f"{name} round {r_i} args {args}: raised {e!r}"
            if n == 0:
                return True, f"{name} round {r_i} args {args}: nothing sent"
            reported = cell["observe"](dev)
            tol = cell["tol"]
            if isinstance(tol, tuple):
                _, step, lim = tol
                want = min(max(args[0] * step, -lim), lim)
                ok = reported is not None and abs(reported - want) <= 1e-9
                want_s = want
            else:
                want_s = requested_of(name, args)

                def close(a, b):
                    if isinstance(b, tuple):
                        return isinstance(a, tuple) and len(a) == len(b) and all(close(x, y) for x, y in zip(a, b))
                    if a is None or b is None:
                        return a is b
                    if isinstance(a, float) or isinstance(b, float):
                        return abs(a - b) <= (tol or 0)
                    return a == b
                ok = close(reported, want_s)
            if not ok:
                return True, f"{name} round {r_i}: requested {want_s!r} (args {args}), device reports {reported!r}"
        return False, "ok"
    return asyncio.run(go())
