"""Reference implementation of the KNX Data Secure authenticated-encryption scheme (AN158 / 03_07_03 Data Security,
as implemented by interoperable stacks), written independently of xknx.  Works on symbolic or concrete octets through
an abstract block cipher `enc(key, block16) -> block16` and list-of-int/term arithmetic only.

  B0  = SeqNr(6) | SA(2) | DA(2) | 00 | (AT<<7 | EFF) | (TPCI | 0x03) | 0xF1 | 00 | Q
        Q = length of the plain APDU for authenticated encryption, 0 for authentication only
  A   = SCF                      (authenticated encryption)
        SCF | APDU               (authentication only)
  CBC-MAC over  B0 | len(A) (2 octets) | A | P   zero padded to a multiple of 16, IV = 0;  MAC = first 4 octets
        P = plain APDU for authenticated encryption, empty for authentication only
  Ctr0 = SeqNr(6) | SA(2) | DA(2) | 00 00 00 00 | 01 | 00
  authenticated encryption: the 4-octet MAC and the plain APDU are encrypted as ONE continuous AES-CTR stream that starts
        at Ctr0:  S = E(Ctr0) | E(Ctr0+1) | ...;  MAC' = MAC xor S[0:4];  C = P xor S[4:4+len(P)]
        (this is what interoperable stacks do for the 4-octet Data Secure MAC; IP Secure, with its 16-octet MAC, thereby
        starts the payload at Ctr0+1)
  authentication only:      MAC and APDU are sent as they are
  secured APDU = SeqNr(6) | C or APDU | MAC(4)
"""


def xor(a, b):
    return [x ^ y for x, y in zip(a, b)]


def cbc_mac(enc, key, data):
    data = list(data)
    if len(data) % 16:
        data += [0] * (16 - len(data) % 16)
    y = [0] * 16
    for i in range(0, len(data), 16):
        y = enc(key, xor(data[i:i + 16], y))
    return y


def inc(counter, add, bv_add):
    return bv_add(counter, add)


def secure(enc, bv_add, key, seq6, sa2, da2, at_group, eff, tpci_octet, scf, apdu, encrypt):
    """Returns (secured_apdu_octets, mac4)."""
    q = len(apdu) if encrypt else 0
    b0 = list(seq6) + list(sa2) + list(da2) + [0, (0x80 if at_group else 0) | eff, tpci_octet | 0x03, 0xF1, 0, q]
    a = [scf] if encrypt else [scf] + list(apdu)
    p = list(apdu) if encrypt else []
    mac = cbc_mac(enc, key, b0 + [len(a) >> 8, len(a) & 0xFF] + a + p)[:4]
    if not encrypt:
        return list(apdu), mac
    ctr0 = list(seq6) + list(sa2) + list(da2) + [0, 0, 0, 0, 1, 0]
    stream = []
    k = 0
    while len(stream) < 4 + len(apdu):
        stream += enc(key, bv_add(ctr0, k) if k else ctr0)
        k += 1
    return xor(list(apdu), stream[4:4 + len(apdu)]), xor(mac, stream[:4])
