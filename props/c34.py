"""C34 Telegram callbacks see exactly the telegrams they subscribed to."""
from __future__ import annotations

ID = "C34"
BOUNDS = {
    "quick": "one processed telegram (destination raw 0..65535 symbolic, incoming or outgoing) against four registered callbacks: match-all, address filters only, group addresses only, filters and group addresses; every number in the filter patterns (shapes a-b/*/c and */m/-s in 3-level notation; a-b/c in 2-level; -b and n in free notation) and every listed group address symbolic; match_for_outgoing per callback in 4 combinations; each callback raising or not (4 of the 16 combinations, all in the thorough tier); processed through process_telegram_incoming / process_telegram_outgoing",
    "thorough": "as quick (complete for the stated registrations) plus internal-address telegrams",
}
OUTSIDE = "streams of several telegrams (callbacks and filters hold no state between telegrams); internal group address globs beyond concrete samples; the consumer task loop around the processing functions (C33)"
ASSUMPTIONS = [
    "filter denotation shared with C02 (per level OR over items of min(lo,hi) <= field <= max(lo,hi), clamped)",
    "xknx.devices.process and cemi_handler.send_telegram are recorders",
]
EXPLANATION = ("C34: TelegramQueue.Callback.is_within_filter, _run_telegram_received_cbs, process_telegram_incoming/outgoing and AddressFilter.match run on symbolic "
               "registrations and telegrams; z3 decides that each callback is invoked exactly once iff it subscribed, and devices are processed regardless of raising callbacks.")
INTERESTING = ["called", "not-called"]
REQUIRED_REACH = ["called", "not-called"]
SHAPES = {"LONG": [["a-b", "*", "c"], ["*", "m", "-s"]], "SHORT": [["a-b", "c"]], "FREE": [["-b"], ["n"]]}


def jobs(tier, seed):
    out = []
    for fmt in SHAPES:
        for direction, outs in (("INCOMING", [5]), ("OUTGOING", [0, 5, 10, 15])):
            for og in outs:
                for raising in range(0, 16, (5 if tier == "quick" else 1)):
                    out.append(dict(name=f"{fmt}-{direction}-o{og}-r{raising}", fmt=fmt, direction=direction, raising=raising, outgoing=og, cost=5))
    return out


def build_pattern(c, shape, nums):
    parts, den = [], []
    for it in shape:
        def num():
            v = c.fresh_int(f"n{len(nums)}", 0, 70000)
            nums.append(v)
            return c.placeholder(v)
        if it == "*":
            parts.append("*"); den.append((0, 65535))
        elif it == "a-b":
            a, b = num(), num(); parts.append(f"{a}-{b}"); den.append((nums[-2], nums[-1]))
        elif it in ("-s", "-b"):
            b = num(); parts.append(f"-{b}"); den.append((0, nums[-1]))
        else:
            a = num(); parts.append(a); den.append((nums[-1], nums[-1]))
    return "/".join(parts), den


def run_job(job, rep):
    import types
    import z3
    from symx import core, aio
    from vx.harness import trace_functions
    from vx.util import exc_site
    import xknx.core.telegram_queue as tq
    import xknx.telegram.address as ad
    from xknx.telegram import AddressFilter, Telegram, TelegramDirection, GroupAddress
    from xknx.telegram.apci import GroupValueWrite
    from xknx.dpt import DPTBinary

    fmt = job["fmt"]
    ad.GroupAddress.address_format = ad.GroupAddressType[fmt]
    direction = TelegramDirection[job["direction"]]
    raising = job["raising"]

    def run(c):
        nums = []
        pats = [build_pattern(c, sh, nums) for sh in SHAPES[fmt]]
        ga_list = [c.fresh_int(f"ga{i}", 0, 65535) for i in range(3)]
        outgoing = [bool(job["outgoing"] >> i & 1) for i in range(4)]
        q = tq.TelegramQueue.__new__(tq.TelegramQueue)
        devices, sent = [], []

        async def send_telegram(t):
            sent.append(t)
        q.xknx = types.SimpleNamespace(devices=types.SimpleNamespace(process=lambda t: devices.append(t)), cemi_handler=types.SimpleNamespace(send_telegram=send_telegram))
        q.telegram_received_cbs = []
        calls = [[] for _ in range(4)]

        def mk(i):
            def cb(t):
                calls[i].append(t)
                if raising >> i & 1:
                    raise RuntimeError("callback failed")
            return cb
        filters = [AddressFilter(p) for p, _ in pats]
        q.register_telegram_received_cb(mk(0), match_for_outgoing=outgoing[0])
        q.register_telegram_received_cb(mk(1), address_filters=filters, match_for_outgoing=outgoing[1])
        q.register_telegram_received_cb(mk(2), group_addresses=[GroupAddress(ga_list[0]), GroupAddress(ga_list[1])], match_for_outgoing=outgoing[2])
        q.register_telegram_received_cb(mk(3), address_filters=filters[:1], group_addresses=[GroupAddress(ga_list[2])], match_for_outgoing=outgoing[3])
        dst = c.fresh_int("dst", 0, 65535)
        tg = Telegram(destination_address=GroupAddress(dst), payload=GroupValueWrite(DPTBinary(1)), direction=direction)
        c.notes.update(nums=nums, pats=pats, ga=ga_list, outgoing=outgoing, dst=dst)
        coro = q.process_telegram_incoming(tg) if direction is TelegramDirection.INCOMING else q.process_telegram_outgoing(tg)
        f = lambda: aio.drive(coro)
        trace_functions(f, rep) if not rep.functions else f()
        return calls, devices, sent

    def den_match(core, raw, den):
        nl = len(den)
        fields = {3: [(raw >> 11) & 31, (raw >> 8) & 7, raw & 255], 2: [(raw >> 11) & 31, raw & 2047], 1: [raw]}[nl]
        cl = lambda x: core.ite(x > 65535, 65535, x) if core.is_sym(x) else min(x, 65535)
        lv = []
        for fld, (lo, hi) in zip(fields, den):
            lo, hi = cl(lo), cl(hi)
            lv.append(core.sym_or(core.sym_and(lo <= fld, fld <= hi), core.sym_and(hi <= fld, fld <= lo)))
        return core.sym_and(*lv)

    def judge(pr):
        c = pr.ctx
        if pr.kind in ("unsupported", "timeout"):
            rep.inconcl(f"{job['name']}: {pr.value}"); return
        n_ = c.notes
        m = c.current_model()

        def mcase(mm):
            pats = []
            for p, _ in n_["pats"]:
                for ph, v in c.ph.items():
                    if ph in p:
                        p = p.replace(ph, str(core.model_val(mm, v)))
                pats.append(p)
            return dict(fmt=fmt, direction=job["direction"], raising=raising, patterns=pats, ga=[core.model_val(mm, g) for g in n_["ga"]],
                        outgoing=[core.model_val(mm, o) for o in n_["outgoing"]], dst=core.model_val(mm, n_["dst"]))
        case = mcase(m)
        if pr.kind == "raise":
            rep.ob("refuted", "processing-raises:" + exc_site(pr.value), case, repr(pr.value)); return
        calls, devices, sent = pr.value
        dst = n_["dst"]
        fm = [den_match(core, dst, d) for _, d in n_["pats"]]
        subs = [True, core.sym_or(*fm), core.sym_or(dst == n_["ga"][0], dst == n_["ga"][1]), core.sym_or(fm[0], dst == n_["ga"][2])]
        conds = []
        for i in range(4):
            dir_ok = True if job["direction"] == "INCOMING" else n_["outgoing"][i]
            exp = core.sym_and(dir_ok, subs[i])
            ncalls = len(calls[i])
            rep.reach["called" if ncalls else "not-called"] += 1
            conds.append(core.sym_and(ncalls <= 1, exp if ncalls == 1 else core.sym_not(exp)))
        conds.append(len(devices) == 1)
        if job["direction"] == "OUTGOING":
            conds.append(len(sent) == 1)
        st, mm = c.prove(core.sym_and(*conds))
        rep.ob(st, "callback-dispatch", mcase(mm) if mm is not None else case, f"callbacks invoked {[len(x) for x in calls]}, devices processed {len(devices)}")
        rep.sample(dict(witness=case, calls=[len(x) for x in calls]), limit=1)

    _, st = core.explore(run, on_path=judge, stop=rep.enough, timeout=600)
    rep.add_stats(st)


def replay(case):
    import asyncio
    from unittest.mock import Mock, AsyncMock
    from xknx import XKNX
    import xknx.telegram.address as ad
    from xknx.telegram import AddressFilter, Telegram, TelegramDirection, GroupAddress
    from xknx.telegram.apci import GroupValueWrite
    from xknx.dpt import DPTBinary

    def ref_match(pattern, raw):
        levels = pattern.split("/")
        nl = len(levels)
        fields = {3: [(raw >> 11) & 31, (raw >> 8) & 7, raw & 255], 2: [(raw >> 11) & 31, raw & 2047], 1: [raw]}[nl]
        for fld, it in zip(fields, levels):
            if it == "*":
                lo, hi = 0, 65535
            elif "-" in it:
                a, b = it.split("-")
                lo, hi = (int(a) if a else 0), (int(b) if b else 65535)
            else:
                lo = hi = int(it)
            lo, hi = min(lo, 65535), min(hi, 65535)
            if not min(lo, hi) <= fld <= max(lo, hi):
                return False
        return True

    async def go():
        ad.GroupAddress.address_format = ad.GroupAddressType[case["fmt"]]
        xk = XKNX()
        devices = []
        xk.devices = Mock()
        xk.devices.process = devices.append
        xk.cemi_handler = Mock()
        xk.cemi_handler.send_telegram = AsyncMock()
        q = xk.telegram_queue
        calls = [[] for _ in range(4)]

        def mk(i):
            def cb(t):
                calls[i].append(t)
                if case["raising"] >> i & 1:
                    raise RuntimeError("callback failed")
            return cb
        filters = [AddressFilter(p) for p in case["patterns"]]
        ga = case["ga"]
        q.register_telegram_received_cb(mk(0), match_for_outgoing=case["outgoing"][0])
        q.register_telegram_received_cb(mk(1), address_filters=filters, match_for_outgoing=case["outgoing"][1])
        q.register_telegram_received_cb(mk(2), group_addresses=[GroupAddress(ga[0]), GroupAddress(ga[1])], match_for_outgoing=case["outgoing"][2])
        q.register_telegram_received_cb(mk(3), address_filters=filters[:1], group_addresses=[GroupAddress(ga[2])], match_for_outgoing=case["outgoing"][3])
        direction = TelegramDirection[case["direction"]]
        tg = Telegram(destination_address=GroupAddress(case["dst"]), payload=GroupValueWrite(DPTBinary(1)), direction=direction)
        try:
            if direction is TelegramDirection.INCOMING:
                await q.process_telegram_incoming(tg)
            else:
                await q.process_telegram_outgoing(tg)
        except Exception as e:  # noqa: BLE001
            return True, f"processing raised {e!r}"
        dst = case["dst"]
        fm = [ref_match(p, dst) for p in case["patterns"]]
        subs = [True, any(fm), dst in (ga[0], ga[1]), fm[0] or dst == ga[2]]
        for i in range(4):
            exp = subs[i] and (case["direction"] == "INCOMING" or case["outgoing"][i])
            if len(calls[i]) != (1 if exp else 0):
                return True, f"callback {i} invoked {len(calls[i])} times, expected {int(exp)} (dst {GroupAddress(dst)}, patterns {case['patterns']}, addresses {ga})"
        if len(devices) != 1:
            return True, f"devices.process called {len(devices)} times"
        return False, "ok"
    return asyncio.run(go())
