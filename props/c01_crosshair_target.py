"""CrossHair targets for C01 (arbitrary text given to the address constructors).  Imported by `crosshair check`
in a clean interpreter (no symx loader): the real xknx code is analysed.  LEN is patched by the driver."""
from xknx.exceptions import CouldNotParseAddress
from xknx.telegram.address import GroupAddress, IndividualAddress, InternalGroupAddress, parse_device_group_address


def _ok(cls, s: str) -> bool:
    try:
        a = cls(s)
    except CouldNotParseAddress:
        return True
    except Exception:  # noqa: BLE001 - any other exception violates the property
        return False
    try:
        return cls(str(a)) == a
    except Exception:  # noqa: BLE001
        return False


def group_text(s: str) -> bool:
    """
    pre: len(s) <= 4
    post: __return__
    """
    return _ok(GroupAddress, s)


def individual_text(s: str) -> bool:
    """
    pre: len(s) <= 4
    post: __return__
    """
    return _ok(IndividualAddress, s)


def internal_text(s: str) -> bool:
    """
    pre: len(s) <= 4
    post: __return__
    """
    return _ok(InternalGroupAddress, s)


def device_text(s: str) -> bool:
    """
    pre: len(s) <= 4
    post: __return__
    """
    try:
        a = parse_device_group_address(s)
    except CouldNotParseAddress:
        return True
    except Exception:  # noqa: BLE001
        return False
    try:
        return parse_device_group_address(str(a)) == a
    except Exception:  # noqa: BLE001
        return False
