"""C37 The device registry dispatches each telegram to exactly the right devices."""
from __future__ import annotations

ID = "C37"
BOUNDS = {
    "quick": "histories of up to 4 add/remove operations (device chosen symbolically per step) over 3 real Switch devices whose group addresses A, B, C are symbolic 16-bit values (device 0: A with state address B; device 1: A; device 2: passive-only C), followed by a group telegram to a symbolic destination; compared with a naive scan of the registered devices in registration order",
    "thorough": "histories of up to 5 operations",
}
OUTSIDE = "longer histories and more devices; device types other than Switch (the registry only uses Device.group_addresses()/process()); the solver's role here is to enumerate the feasible operation sequences and address coincidences - the comparison itself is concrete per path (weak fit for the technique, stated in DESIGN.md)"
ASSUMPTIONS = ["Device.process is replaced by a recorder on the Switch class; state updater / task registration are inert (xknx not started)"]
EXPLANATION = "C37: Devices.async_add/async_remove/process with real devices on symbolic addresses and a symbolic operation history; every feasible history and address coincidence is decided by z3 and checked against the naive scan."
INTERESTING = ["dispatched", "op-rejected"]
REQUIRED_REACH = ["dispatched", "op-rejected"]


def jobs(tier, seed):
    k = 4 if tier == "quick" else 5
    return [dict(name=f"hist{k}-first{o}", k=k, first=o, cost=10) for o in range(6)]


def run_job(job, rep):
    from symx import core
    from vx.harness import trace_functions
    from vx.util import exc_site
    from xknx import XKNX
    from xknx.devices import Switch
    from xknx.telegram import GroupAddress, Telegram
    from xknx.telegram.apci import GroupValueWrite
    from xknx.dpt import DPTBinary

    k = job["k"]

    def run(c):
        xk = XKNX()
        A, B, C = (c.fresh_int(n, 1, 65535) for n in "ABC")
        devs = [Switch(xk, "d0", group_address=GroupAddress(A), group_address_state=GroupAddress(B)),
                Switch(xk, "d1", group_address=GroupAddress(A)),
                Switch(xk, "d2", group_address=[None, GroupAddress(C)])]
        processed = []
        Switch.process = lambda self, telegram: processed.append(self.name)
        reg = []          # reference: registration order
        ops = []
        rejected = 0
        for i in range(k):
            o = job["first"] if i == 0 else core.concretize(c.fresh_int(f"op{i}", 0, 5))
            ops.append(o)
            d = devs[o % 3]
            try:
                if o < 3:
                    f = lambda: xk.devices.async_add(d)
                    trace_functions(f, rep) if not rep.functions else f()
                    if d in reg:
                        return ("error", f"adding registered {d.name} did not raise", ops)
                    reg.append(d)
                else:
                    xk.devices.async_remove(d)
                    if d not in reg:
                        return ("error", f"removing unregistered {d.name} did not raise", ops)
                    reg.remove(d)
            except ValueError:
                rejected += 1
                if (o < 3) != (d in reg):
                    return ("error", f"operation {o} on {d.name} wrongly rejected", ops)
            if [x.name for x in xk.devices] != [x.name for x in reg]:
                return ("error", f"registered devices {[x.name for x in xk.devices]} != {[x.name for x in reg]}", ops)
        dst = c.fresh_int("dst", 1, 65535)
        c.notes.update(A=A, B=B, C=C, dst=dst, ops=ops)
        xk.devices.process(Telegram(destination_address=GroupAddress(dst), payload=GroupValueWrite(DPTBinary(1))))
        naive = [d.name for d in reg if d.has_group_address(GroupAddress(dst))]
        return ("ok", processed, naive, ops, rejected)

    def judge(pr):
        c = pr.ctx
        if pr.kind in ("unsupported", "timeout"):
            rep.inconcl(f"{job['name']}: {pr.value}"); return
        n_ = c.notes
        m = c.current_model()
        case = dict(ops=n_.get("ops", []), **{k_: core.model_val(m, n_[k_]) for k_ in ("A", "B", "C", "dst") if k_ in n_})
        if pr.kind == "raise":
            rep.ob("refuted", "registry-raises:" + exc_site(pr.value), case, repr(pr.value)); return
        if pr.value[0] == "error":
            case["ops"] = pr.value[2]
            rep.ob("refuted", "registry-operation", case, pr.value[1]); return
        _, processed, naive, ops, rejected = pr.value
        rep.reach["dispatched"] += 1
        rep.reach["op-rejected"] += rejected
        rep.ob("proved" if processed == naive else "refuted", "dispatch-differs-from-naive-scan", case, f"processed {processed}, naive scan {naive}")
        rep.sample(dict(witness=case, processed=processed), limit=2)

    _, st = core.explore(run, on_path=judge, stop=rep.enough, timeout=900)
    rep.add_stats(st)


def replay(case):
    import asyncio
    from xknx import XKNX
    from xknx.devices import Switch
    from xknx.telegram import GroupAddress, Telegram
    from xknx.telegram.apci import GroupValueWrite
    from xknx.dpt import DPTBinary

    async def go():
        xk = XKNX()
        A, B, C = case.get("A", 1), case.get("B", 2), case.get("C", 3)
        devs = [Switch(xk, "d0", group_address=GroupAddress(A), group_address_state=GroupAddress(B)), Switch(xk, "d1", group_address=GroupAddress(A)),
                Switch(xk, "d2", group_address=[None, GroupAddress(C)])]
        processed = []
        from unittest.mock import patch
        with patch.object(Switch, "process", lambda self, telegram: processed.append(self.name)):
            reg = []
            for o in case["ops"]:
                d = devs[o % 3]
                try:
                    if o < 3:
                        xk.devices.async_add(d)
                        if d in reg:
                            return True, f"adding registered {d.name} did not raise"
                        reg.append(d)
                    else:
                        xk.devices.async_remove(d)
                        if d not in reg:
                            return True, f"removing unregistered {d.name} did not raise"
                        reg.remove(d)
                except ValueError:
                    if (o < 3) != (d in reg):
                        return True, f"operation {o} on {d.name} wrongly rejected"
                if [x.name for x in xk.devices] != [x.name for x in reg]:
                    return True, "registered device list differs from the reference"
            if "dst" not in case:
                return False, "ok"
            xk.devices.process(Telegram(destination_address=GroupAddress(case["dst"]), payload=GroupValueWrite(DPTBinary(1))))
            naive = [d.name for d in reg if d.has_group_address(GroupAddress(case["dst"]))]
            if processed != naive:
                return True, f"ops {case['ops']} (A={A} B={B} C={C}): telegram to {case['dst']} processed by {processed}, naive scan {naive}"
        return False, "ok"
    return asyncio.run(go())
