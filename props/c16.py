"""C16 Tampered Data Secure frames are never delivered."""
from __future__ import annotations

ID = "C16"
BOUNDS = {
    "quick": "an arbitrary received secured L_Data frame on the wire: control octets, source, destination (group), TPCI octet, SCF octet, 48-bit sequence number, secured APDU of n = 0..4, 13 symbolic octets and 4 MAC octets all symbolic; receiver key symbolic (hence also 'a different key'); receiver knows the sender with an older counter; (ii) a frame with control octet 0xBC / hop count 6 against the same frame with arbitrary priority/repeat/system-broadcast/ack/confirm bits, frame-type bit and hop count",
    "thorough": "as quick with n = 0..40",
}
OUTSIDE = "that a forged MAC cannot be guessed (AES-CCM unforgeability is the standard cryptographic assumption; the solver decides that acceptance implies the specification MAC over all protected fields as received); frames shorter than a minimal secured APDU are rejected by the parser (C04/C12)"
ASSUMPTIONS = [
    "AES-128 = uninterpreted function E(key, block)",
    "cut: the decrypted inner APDU is not decoded in this harness (APCI.from_knx is replaced by an octet container inside xknx.secure.data_secure); its decoding is C04's and C18's subject",
    "split of the property: (i) acceptance => received MAC == specification MAC (reference in /verif/props/ds_common.py and /verif/spec/ccm_reference.py) computed over source, destination, address type, extended frame format, TPCI, SCF, sequence number and APDU AS RECEIVED ON THE WIRE, under the receiver's key; hence any change of a protected field, or another key, needs a MAC forgery; (ii) acceptance and the delivered APDU are independent of the unprotected control bits",
]
EXPLANATION = ("C16: CEMILData.from_knx (flags, TPCI, SecureAPDU/SecurityControlField/SecureData parsing) and DataSecure.received_cemi run on a symbolic "
               "wire frame over E; on every accepting path z3 proves the MAC equation of the specification for the octets as received.")
INTERESTING = ["accepted", "rejected"]
REQUIRED_REACH = ["accepted", "rejected", "unprotected-pair"]


def jobs(tier, seed):
    ns = [0, 1, 2, 3, 4, 13] if tier == "quick" else list(range(0, 41))
    out = [dict(name=f"wire-n{n}", kind="wire", n=n, cost=n + 5) for n in ns]
    for n in ((2,) if tier == "quick" else (1, 2, 5)):
        out.append(dict(name=f"unprotected-n{n}", kind="pair", n=n, cost=200))
    return out


def wire_frame(c, n, pfx=""):
    from symx import core
    ctrl1 = c.fresh_int(pfx + "ctrl1", 0, 255)
    hop = c.fresh_int(pfx + "hop", 0, 7)
    return ctrl1, hop


def run_job(job, rep):
    import z3
    from symx import core, crypto
    from vx.harness import trace_functions
    from vx.util import exc_site, sym_eq
    import props.ds_common as dc
    dc.setup()
    import xknx.secure.data_secure as ds
    import xknx.cemi.cemi_frame as cf
    from xknx.exceptions import DataSecureError, CouldNotParseCEMI, UnsupportedCEMIMessage
    from xknx.telegram import GroupAddress, IndividualAddress

    n = job["n"]

    class InnerAPDU:
        """Cut: decoding of the decrypted inner APDU is C04's / C18's subject; keep the octets."""
        def __init__(self, raw):
            self.raw = raw

        @classmethod
        def from_knx(cls, raw):
            return cls(raw)
    ds.APCI = InnerAPDU

    def make(c):
        key = c.fresh_bytes("k", 16)
        src = c.fresh_bytes("src", 2)
        dst = c.fresh_bytes("dst", 2)
        eff = c.fresh_int("eff", 0, 15)
        tpci = c.fresh_int("tpci", 0, 63)            # upper six bits of the TPCI/APCI octet
        scf = c.fresh_int("scf", 0, 255)
        seq = c.fresh_bytes("seq", 6)
        sec = c.fresh_bytes("c", n)
        mac = c.fresh_bytes("mac", 4)
        last = c.fresh_int("last", 0, (1 << 48) - 1)
        return dict(key=key, src=src, dst=dst, eff=eff, tpci=tpci, scf=scf, seq=seq, sec=sec, mac=mac, last=last)

    def frame(v, ctrl1, hop):
        ctrl2 = 0x80 | (hop << 4) | v["eff"]
        body = [(v["tpci"] << 2) | 0x03, 0xF1, v["scf"]] + list(v["seq"]) + list(v["sec"]) + list(v["mac"])
        return core.SymBytes([ctrl1, ctrl2] + list(v["src"]) + list(v["dst"]) + [len(body) - 1] + body)

    def receive(v, raw):
        ga = GroupAddress(core.int_from_bytes(v["dst"]))
        ia = IndividualAddress(core.int_from_bytes(v["src"]))
        r = ds.DataSecure(group_key_table={ga: v["key"]}, individual_address_table={ia: v["last"]}, last_sequence_number_sending=1)
        try:
            parsed = cf.CEMILData.from_knx(raw)
        except (CouldNotParseCEMI, UnsupportedCEMIMessage) as e:
            return ("unparsable", e)
        try:
            out = r.received_cemi(parsed)
        except DataSecureError as e:
            return ("rejected", e)
        return ("accepted", out, parsed)

    def mc(c, v, mm, extra=None):
        d = {k: core.model_val(mm, x) for k, x in v.items()}
        for k in ("key", "src", "dst", "seq", "sec", "mac"):
            d[k] = d[k].hex()
        d.update(extra or {})
        return d

    if job["kind"] == "wire":
        def run(c):
            v = make(c)
            ctrl1, hop = 0xBC, 6            # unprotected bits are the subject of the pair jobs
            c.notes.update(v=v, ctrl1=ctrl1, hop=hop)
            raw = frame(v, ctrl1, hop)
            return trace_functions(lambda: receive(v, raw), rep) if not rep.functions else receive(v, raw)

        def judge(pr):
            c = pr.ctx
            if pr.kind in ("unsupported", "timeout"):
                rep.inconcl(f"{job['name']}: {pr.value}"); return
            v = c.notes["v"]
            m = c.current_model()
            ex = lambda mm: dict(kind="wire", n=n, ctrl1=core.model_val(mm, c.notes["ctrl1"]), hop=core.model_val(mm, c.notes["hop"]))
            case = mc(c, v, m, ex(m))
            if pr.kind == "raise":
                from xknx.exceptions import ConversionError
                if isinstance(pr.value, ConversionError):
                    rep.reach["authenticated-but-malformed-inner-apdu (C18)"] += 1
                    return
                rep.ob("refuted", "receive-raises:" + exc_site(pr.value), case, repr(pr.value)); return
            if pr.value[0] != "accepted":
                rep.reach["rejected"] += 1
                return
            rep.reach["accepted"] += 1
            _, out, parsed = pr.value
            # which algorithm did the wire SCF select?  (bits 6..4; only 0 and 1 are defined)
            algbits = (v["scf"] >> 4) & 7
            enc_path = core.concretize(algbits)          # forks 0/1 (others cannot be accepted)
            pairs, plain = dc.ref_verify(crypto.enc_block, list(v["key"]), list(v["seq"]), list(v["src"]), list(v["dst"]), True, v["eff"],
                                         v["tpci"] << 2, v["scf"], list(v["sec"]), list(v["mac"]), enc_path == 1)
            seqv = core.int_from_bytes(v["seq"])
            conds = [core.zint(a) == core.zint(b) for a, b in pairs]
            conds.append(core.as_z3_bool(seqv > v["last"]))
            conds.append(core.as_z3_bool(core.sym_or(enc_path == 0, enc_path == 1)))
            st, mm = c.prove(z3.And(*conds))
            rep.ob(st, "accepted-without-spec-mac", case if mm is None else mc(c, v, mm, ex(mm)),
                   "frame accepted although the MAC does not equal the specification MAC over the protected fields as received (or stale sequence number)")
            # delivered APDU is the one the specification decrypts
            from xknx.telegram.apci import APCI
            rep.sample(dict(n=n, witness={k: case[k] for k in ("scf", "tpci", "eff", "ctrl1", "hop")}), limit=1)

        _, st = core.explore(run, on_path=judge, stop=rep.enough, timeout=900)
        rep.add_stats(st)
        return

    def run(c):
        v = make(c)
        # the protected fields are the subject of the wire jobs: here a well-formed SCF/TPCI/EFF, either algorithm
        v["eff"], v["tpci"] = 0, 0
        v["scf"] = c.fresh_int("algbit", 0, 1) * 16
        a1, h1 = 0xBC, 6
        a2, h2 = wire_frame(c, n, "b")
        c.notes.update(v=v, a1=a1, h1=h1, a2=a2, h2=h2)
        r1 = receive(v, frame(v, a1, h1))
        r2 = receive(v, frame(v, a2, h2))
        return r1, r2

    def judge(pr):
        c = pr.ctx
        if pr.kind in ("unsupported", "timeout"):
            rep.inconcl(f"{job['name']}: {pr.value}"); return
        v = c.notes["v"]
        m = c.current_model()
        ex = lambda mm: dict(kind="pair", n=n, ctrl1=core.model_val(mm, c.notes["a1"]), hop=core.model_val(mm, c.notes["h1"]),
                             ctrl1_b=core.model_val(mm, c.notes["a2"]), hop_b=core.model_val(mm, c.notes["h2"]))
        case = mc(c, v, m, ex(m))
        if pr.kind == "raise":
            rep.ob("refuted", "receive-raises:" + exc_site(pr.value), case, repr(pr.value)); return
        r1, r2 = pr.value
        rep.reach["unprotected-pair"] += 1
        if r1[0] != r2[0]:
            rep.ob("refuted", "unprotected-bits-change-acceptance", case, f"{r1[0]} vs {r2[0]}"); return
        if r1[0] == "accepted":
            st, mm = c.prove(sym_eq(r1[1].payload.raw, r2[1].payload.raw))
            rep.ob(st, "unprotected-bits-change-payload", case if mm is None else mc(c, v, mm, ex(mm)), "delivered APDU depends on unprotected control bits")
        else:
            rep.obligations += 1; rep.discharged += 1

    _, st = core.explore(run, on_path=judge, stop=rep.enough, timeout=900)
    rep.add_stats(st)


def _frame(case, ctrl1, hop):
    body = [(case["tpci"] << 2) | 0x03, 0xF1, case["scf"]] + list(bytes.fromhex(case["seq"])) + list(bytes.fromhex(case["sec"])) + list(bytes.fromhex(case["mac"]))
    return bytes([ctrl1, 0x80 | (hop << 4) | case["eff"]]) + bytes.fromhex(case["src"]) + bytes.fromhex(case["dst"]) + bytes([len(body) - 1]) + bytes(body)


def _receive(case, raw):
    import xknx.secure.data_secure as ds
    import xknx.cemi.cemi_frame as cf
    from xknx.exceptions import DataSecureError, CouldNotParseCEMI, UnsupportedCEMIMessage
    from xknx.telegram import GroupAddress, IndividualAddress
    ga = GroupAddress(int.from_bytes(bytes.fromhex(case["dst"]), "big"))
    ia = IndividualAddress(int.from_bytes(bytes.fromhex(case["src"]), "big"))
    r = ds.DataSecure(group_key_table={ga: bytes.fromhex(case["key"])}, individual_address_table={ia: case["last"]}, last_sequence_number_sending=1)
    try:
        parsed = cf.CEMILData.from_knx(raw)
    except (CouldNotParseCEMI, UnsupportedCEMIMessage):
        return ("unparsable",)
    try:
        return ("accepted", r.received_cemi(parsed))
    except DataSecureError:
        return ("rejected",)


def _genuine_variant(case):
    """The solver's model fixes every field except what depends on real AES.  Rebuild ciphertext and MAC the way xknx
    itself would for the frame AS XKNX PARSES IT, so that the real receiver accepts it (if it accepts at all)."""
    import xknx.cemi.cemi_frame as cf
    import xknx.secure.data_secure_asdu as asdu
    from xknx.exceptions import CouldNotParseCEMI, UnsupportedCEMIMessage
    probe = dict(case)
    try:
        parsed = cf.CEMILData.from_knx(_frame(probe, case["ctrl1"], case["hop"]))
    except (CouldNotParseCEMI, UnsupportedCEMIMessage):
        return None
    p = parsed.payload
    if not hasattr(p, "scf"):
        return None
    n = max(2, len(bytes.fromhex(case["sec"])))      # a decodable inner APDU needs two octets; the length is not what the counterexample is about
    plain = (bytes([0x00, 0x80]) + bytes(range(1, 64)))[:n]
    try:
        sd = asdu.SecureData.init_from_plain_apdu(key=bytes.fromhex(case["key"]), apdu=plain, scf=p.scf, sequence_number=int.from_bytes(bytes.fromhex(case["seq"]), "big"),
                                                  address_fields_raw=bytes.fromhex(case["src"]) + bytes.fromhex(case["dst"]), address_type=parsed.address_type,
                                                  frame_format=parsed.flags.frame_format, tpci=parsed.tpci)
    except Exception:  # noqa: BLE001
        return None
    g = dict(case)
    g["sec"] = bytes(sd.secured_apdu).hex()
    g["mac"] = bytes(sd.message_authentication_code).hex()
    return g


def replay(case):
    import props.ds_common as dc
    if case["kind"] == "pair":
        g = _genuine_variant(case) or case
        try:
            r1 = _receive(g, _frame(g, case["ctrl1"], case["hop"]))
            r2 = _receive(g, _frame(g, case["ctrl1_b"], case["hop_b"]))
        except Exception as e:  # noqa: BLE001
            return True, f"receive path raised {e!r}"
        if r1[0] != r2[0] or (r1[0] == "accepted" and r1[1].payload != r2[1].payload):
            return True, f"unprotected bits changed the outcome: {r1[0]} vs {r2[0]}"
        return False, "ok"
    for cand in (case, _genuine_variant(case)):
        if cand is None:
            continue
        try:
            r1 = _receive(cand, _frame(cand, case["ctrl1"], case["hop"]))
        except Exception as e:  # noqa: BLE001
            if type(e).__name__ in ("ConversionError", "UnsupportedAPCIService"):
                continue        # malformed inner APDU after authentication: C18's subject, not C16's
            return True, f"receive path raised {e!r}"
        if r1[0] != "accepted":
            continue
        alg = (cand["scf"] >> 4) & 7
        if alg not in (0, 1):
            return True, f"accepted with undefined algorithm bits {alg} (SCF {cand['scf']:#04x})"
        pairs, plain = dc.ref_verify(dc.real_enc, list(bytes.fromhex(cand["key"])), list(bytes.fromhex(cand["seq"])), list(bytes.fromhex(cand["src"])),
                                     list(bytes.fromhex(cand["dst"])), True, cand["eff"], cand["tpci"] << 2, cand["scf"], list(bytes.fromhex(cand["sec"])),
                                     list(bytes.fromhex(cand["mac"])), alg == 1)
        if any(a != b for a, b in pairs):
            return True, (f"frame {_frame(cand, case['ctrl1'], case['hop']).hex()} accepted although its MAC {bytes(a for a, _ in pairs).hex()} != specification MAC "
                          f"{bytes(b for _, b in pairs).hex()} over the fields as received (scf={cand['scf']:#04x} tpci={cand['tpci'] << 2:#04x} eff={cand['eff']})")
        if int.from_bytes(bytes.fromhex(cand["seq"]), "big") <= cand["last"]:
            return True, "accepted with a stale sequence number"
    return False, "ok"
