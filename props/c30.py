"""C30 Secure routing accepts only authenticated, timely frames."""
from __future__ import annotations

ID = "C30"
BOUNDS = {
    "quick": "one step of SecureGroup.handle_knxipframe / SecureSequenceTimer from an arbitrary state: monotonic clock (ms, 0..2^47), clock difference (0..2^47), latency tolerance 1..60000 ms, timekeeper/sched_update/timer_authenticated flags, backbone key all symbolic; (a) a plain frame of every KNX/IP service type; (b) an arbitrary TimerNotify (48-bit timer, serial, tag, MAC symbolic), with and without a pending synchronisation (future pending or already done); (c) an arbitrary SECURE_WRAPPER (6 ciphertext octets; inner frame = arbitrary service or parse error); (d) two successive outgoing timer values at non-decreasing clock readings around a received frame",
    "thorough": "as quick plus two received frames in a row",
}
OUTSIDE = "timer expiry and the notify scheduling itself (loop.call_later is a recorder); the float seconds->ms conversion of the event-loop clock (the ms clock is the nondeterministic input); AES strength"
ASSUMPTIONS = [
    "AES-128 = uninterpreted function E; inner frame parsing cut as in C28/C29",
    "SecureSequenceTimer._monotonic_ms is replaced by a symbolic non-decreasing integer clock; loop.call_later/create_future are recorders; random.uniform is real",
    "'within the latency tolerance' = received timer > local timer - latency_tolerance_ms (KNXnet/IP Secure 2.2.2.3)",
]
EXPLANATION = ("C30: SecureGroup.handle_knxipframe, decrypt_frame, SecureSequenceTimer.handle_timer_notify/verify_timer_notify_mac/validate_secure_wrapper/"
               "get_for_outgoing_secure_wrapper run from symbolic state over E; z3 decides forwarding conditions, that only authenticated frames move the timer and only forward, and that no path raises.")
INTERESTING = ["plain-forwarded", "plain-dropped", "notify-authentic", "notify-rejected", "wrapper-forwarded", "wrapper-dropped", "outgoing"]
REQUIRED_REACH = ["plain-forwarded", "plain-dropped", "notify-authentic", "notify-rejected", "wrapper-forwarded", "wrapper-dropped", "outgoing"]


def jobs(tier, seed):
    out = [dict(name="plain", kind="plain"), dict(name="notify", kind="notify", pending="none"), dict(name="notify-pending", kind="notify", pending="pending"),
           dict(name="notify-done", kind="notify", pending="done"), dict(name="wrapper", kind="wrapper", cost=50), dict(name="outgoing", kind="outgoing")]
    return out


class Fut:
    def __init__(self, done):
        self._done = done
        self.results = []

    def done(self):
        return self._done

    def set_result(self, v):
        if self._done:
            import asyncio
            raise asyncio.InvalidStateError("invalid state")
        self._done = True
        self.results.append(v)

    def cancel(self):
        self._done = True


def mk_group(c, ips, types, clock):
    g = ips.SecureGroup.__new__(ips.SecureGroup)
    g.callbacks = []
    g.multicast = True
    g.local_addr_assigned = None
    key = c.fresh_bytes("k", 16)
    g._key = key
    t = ips.SecureSequenceTimer.__new__(ips.SecureSequenceTimer)
    calls = []
    t._backbone_key = key
    t._clock_difference = c.fresh_int("clock_diff", 0, 1 << 47)
    t._expected_notify_handler = None
    t._loop = types.SimpleNamespace(call_later=lambda d, cb, *a: (calls.append(("call_later", d)), types.SimpleNamespace(cancel=lambda: None))[-1], time=lambda: 0)
    t._notify_timer_handle = None
    t._transport_send = lambda frame, addr: calls.append(("send", frame))
    t.sched_update = c.fresh_bool("sched_update")
    t.timekeeper = c.fresh_bool("timekeeper")
    t.timer_authenticated = c.fresh_bool("authenticated")
    lat = c.fresh_int("latency", 1, 60000)
    t.latency_tolerance_ms = lat
    t.sync_latency_tolerance_ms = c.fresh_int("sync_latency", 0, 6000)
    c.add(t.sync_latency_tolerance_ms <= lat)
    for nm, v in (("max_delay_time_keeper_periodic_notify", 10.3), ("min_delay_time_follower_periodic_notify", 10.4), ("max_delay_time_follower_periodic_notify", 11.4),
                  ("max_delay_time_keeper_update_notify", 0.2), ("min_delay_time_follower_update_notify", 0.3), ("max_delay_time_follower_update_notify", 1.3)):
        setattr(t, nm, v)
    g.secure_timer = t
    ips.SecureSequenceTimer._monotonic_ms = lambda self: clock[0]
    return g, t, key, calls


def run_job(job, rep):
    import types
    import z3
    from symx import core, crypto
    from vx.harness import trace_functions
    from vx.util import exc_site
    import props.ds_common as dc
    dc.setup()
    from spec import ipsecure_reference as ref
    import xknx.io.ip_secure as ips
    import xknx.knxip as knxip
    from xknx.exceptions import CouldNotParseKNXIP

    kind = job["kind"]
    members = list(knxip.KNXIPServiceType)
    # inner frame outcome classes of the wrapper job: an allowed service, every forbidden one, or a parse error
    inner_members = [knxip.KNXIPServiceType.ROUTING_INDICATION, knxip.KNXIPServiceType.ROUTING_BUSY] + list(ips.FORBIDDEN_WRAPPED_SERVICES)

    def state(c, t):
        return dict(diff=t._clock_difference, tk=t.timekeeper, su=t.sched_update, au=t.timer_authenticated)

    def same_state(core, a, b):
        return core.sym_and(a["diff"] == b["diff"], core.as_z3_bool(a["tk"]) == core.as_z3_bool(b["tk"]), core.as_z3_bool(a["au"]) == core.as_z3_bool(b["au"]))

    def base_case(mm, c):
        n_ = c.notes
        return {k: core.model_val(mm, v) if not isinstance(core.model_val(mm, v), bytes) else core.model_val(mm, v).hex() for k, v in n_["inputs"].items()}

    if kind == "plain":
        for st in members:
            def run(c):
                clock = [c.fresh_int("now", 0, 1 << 47)]
                g, t, key, calls = mk_group(c, ips, types, clock)
                got = []
                g.callbacks.append(types.SimpleNamespace(has_service=lambda s: True, callback=lambda f, s, tr: got.append(f)))
                frame = types.SimpleNamespace(header=types.SimpleNamespace(service_type_ident=st), body=object())
                s0 = state(c, t)
                c.notes["inputs"] = dict(now=clock[0])
                f = lambda: g.handle_knxipframe(frame, knxip.HPAI())
                trace_functions(f, rep) if not rep.functions else f()
                return got, s0, state(c, t)

            def judge(pr):
                c = pr.ctx
                case = dict(kind="plain", service=st.name)
                if pr.kind != "ok":
                    rep.ob("refuted", "plain-raises:" + (exc_site(pr.value) if pr.kind == "raise" else pr.kind), case, repr(pr.value)); return
                got, s0, s1 = pr.value
                allowed = st in (knxip.KNXIPServiceType.SEARCH_REQUEST, knxip.KNXIPServiceType.SEARCH_REQUEST_EXTENDED, knxip.KNXIPServiceType.SEARCH_RESPONSE,
                                 knxip.KNXIPServiceType.SEARCH_RESPONSE_EXTENDED, knxip.KNXIPServiceType.DESCRIPTION_REQUEST, knxip.KNXIPServiceType.DESCRIPTION_RESPONSE)
                rep.reach["plain-forwarded" if got else "plain-dropped"] += 1
                st_, mm = c.prove(core.sym_and(bool(got) == allowed, same_state(core, s0, s1)))
                rep.ob(st_, f"plain-service-handling:{st.name}", case, "plain frame forwarded although not a discovery/self-description service (or vice versa), or timer state changed")
                rep.sample(dict(witness=case, forwarded=bool(got)), limit=4)
            _, stt = core.explore(run, on_path=judge, stop=rep.enough)
            rep.add_stats(stt)
        return

    if kind == "notify":
        def run(c):
            clock = [c.fresh_int("now", 0, 1 << 47)]
            g, t, key, calls = mk_group(c, ips, types, clock)
            timer = c.fresh_int("timer", 0, (1 << 48) - 1)
            serial, tag, mac = c.fresh_bytes("ser", 6), c.fresh_bytes("tag", 2), c.fresh_bytes("mac", 16)
            fut = None
            if job["pending"] != "none":
                fut = Fut(job["pending"] == "done")
                t._expected_notify_handler = (c.fresh_bytes("exp_tag", 2), fut)
            tn = knxip.TimerNotify(timer_value=timer, serial_number=serial, message_tag=tag, message_authentication_code=mac)
            s0 = state(c, t)
            c.notes["inputs"] = dict(now=clock[0], key=key, timer=timer, serial=serial, tag=tag, mac=mac, diff=s0["diff"], latency=t.latency_tolerance_ms, sync_latency=t.sync_latency_tolerance_ms,
                                     timekeeper=s0["tk"], sched_update=s0["su"], exp_tag=(t._expected_notify_handler[0] if fut else b""))
            f = lambda: g.handle_knxipframe(knxip.KNXIPFrame.init_from_body(tn), knxip.HPAI())
            trace_functions(f, rep) if not rep.functions else f()
            return s0, state(c, t), calls, fut

        def judge(pr):
            c = pr.ctx
            if pr.kind in ("unsupported", "timeout"):
                rep.inconcl(f"{job['name']}: {pr.value}"); return
            n_ = c.notes["inputs"]
            m = c.current_model()
            mcase = lambda mm: dict(base_case(mm, c), kind="notify", pending=job["pending"])
            case = mcase(m)
            if pr.kind == "raise":
                rep.ob("refuted", "timer-notify-raises:" + exc_site(pr.value), case, repr(pr.value)); return
            s0, s1, calls, fut = pr.value
            exp = ref.timer_notify_mac(crypto.enc_block, list(n_["key"]), list(core.int_to_bytes(n_["timer"], 6)), list(n_["serial"]), list(n_["tag"]))
            authentic = z3.And(*[core.zint(a) == core.zint(b) for a, b in zip(n_["mac"], exp)])
            changed = z3.Not(core.as_z3_bool(same_state(core, s0, s1)))
            acted = bool(calls) or bool(fut and fut.results)
            local = n_["now"] + s0["diff"]
            # only authenticated frames move the timer / change roles / trigger scheduling; the timer moves forward only, to max(local, received)
            conds = [z3.Implies(z3.Or(changed, z3.BoolVal(acted)), authentic), core.as_z3_bool(s1["diff"] >= s0["diff"])]
            if fut is not None:
                # a pending (or just answered) synchronisation consumes replies carrying our serial number and the request's tag
                is_reply = core.sym_and(n_["serial"] == ips.XKNX_SERIAL_NUMBER, n_["tag"] == n_["exp_tag"])
            else:
                is_reply = False
            moved = core.ite(core.sym_and(authentic, n_["timer"] > local), n_["timer"] - n_["now"], s0["diff"])
            conds.append(core.as_z3_bool(core.sym_or(s1["diff"] == moved, core.sym_and(is_reply, s1["diff"] == s0["diff"]))))
            if fut and fut.results:
                conds.append(core.as_z3_bool(core.sym_and(is_reply, authentic, s1["diff"] == s0["diff"], fut.results[0] == n_["timer"], job["pending"] == "pending")))
            st, mm = c.prove(z3.And(*conds))
            s2, _ = c.sat(authentic)
            rep.reach["notify-authentic" if (s2 == "sat" and acted) else "notify-rejected"] += 1
            rep.ob(st, "timer-notify-handling", mcase(mm) if mm is not None else case, "unauthenticated TimerNotify changed timer state, or the timer moved backwards / not to max(local, received)")
            rep.sample(dict(witness={k: v for k, v in case.items() if k not in ("key", "mac")}, acted=acted), limit=2)
        _, stt = core.explore(run, on_path=judge, stop=rep.enough, timeout=900)
        rep.add_stats(stt)
        return

    if kind == "wrapper":
        L = 6

        def run(c):
            clock = [c.fresh_int("now", 0, 1 << 47)]
            g, t, key, calls = mk_group(c, ips, types, clock)
            got = []
            g.callbacks.append(types.SimpleNamespace(has_service=lambda s: True, callback=lambda f, s, tr: got.append(f)))

            class InnerFrame:
                init_from_body = knxip.KNXIPFrame.init_from_body

                @staticmethod
                def from_knx(data):
                    i = core.concretize(c.fresh_int("inner_service", 0, len(inner_members)))
                    c.notes["inner"] = i
                    if i == len(inner_members):
                        raise CouldNotParseKNXIP("inner frame does not parse")
                    return types.SimpleNamespace(header=types.SimpleNamespace(service_type_ident=inner_members[i]), body=None), b""
            ips.KNXIPFrame = InnerFrame
            sid = c.fresh_bytes("sid", 2)
            seq, serial, tag = c.fresh_bytes("seq", 6), c.fresh_bytes("ser", 6), c.fresh_bytes("tag", 2)
            ct, mac = c.fresh_bytes("c", L), c.fresh_bytes("mac", 16)
            header = [0x06, 0x10, 0x09, 0x50, 0, 38 + L]
            raw = core.SymBytes(header + list(sid) + list(seq) + list(serial) + list(tag) + list(ct) + list(mac))
            s0 = state(c, t)
            c.notes["inputs"] = dict(now=clock[0], key=key, raw=raw, diff=s0["diff"], latency=t.latency_tolerance_ms, sync_latency=t.sync_latency_tolerance_ms, authenticated=s0["au"], sched_update=s0["su"])
            c.notes["parts"] = dict(header=header, sid=sid, seq=seq, serial=serial, tag=tag, ct=ct, mac=mac)
            frame, _ = knxip.KNXIPFrame.from_knx(raw)
            f = lambda: g.handle_knxipframe(frame, knxip.HPAI())
            trace_functions(f, rep) if not rep.functions else f()
            return got, s0, state(c, t), calls

        def judge(pr):
            c = pr.ctx
            if pr.kind in ("unsupported", "timeout"):
                rep.inconcl(f"{job['name']}: {pr.value}"); return
            n_, p = c.notes["inputs"], c.notes["parts"]
            m = c.current_model()
            mcase = lambda mm: dict(base_case(mm, c), kind="wrapper", inner=c.notes.get("inner"))
            case = mcase(m)
            if pr.kind == "raise":
                rep.ob("refuted", "wrapper-raises:" + exc_site(pr.value), case, repr(pr.value)); return
            got, s0, s1, calls = pr.value
            pairs, plain = ref.unwrap_check(crypto.enc_block, dc.bv_add, list(n_["key"]), p["header"], list(p["sid"]), list(p["seq"]), list(p["serial"]), list(p["tag"]), list(p["ct"]), list(p["mac"]))
            authentic = z3.And(*([core.zint(a) == core.zint(b) for a, b in pairs] + [core.as_z3_bool(core.int_from_bytes(p["sid"]) == 0)]))
            rx = core.int_from_bytes(p["seq"])
            local = n_["now"] + s0["diff"]
            timely = rx > local - n_["latency"]
            changed = z3.Not(core.as_z3_bool(same_state(core, s0, s1)))
            conds = [z3.Implies(z3.Or(changed, z3.BoolVal(bool(calls))), z3.And(authentic, core.as_z3_bool(s0["au"]))), core.as_z3_bool(s1["diff"] >= s0["diff"])]
            if got:
                rep.reach["wrapper-forwarded"] += 1
                conds += [authentic, core.as_z3_bool(s0["au"]), core.as_z3_bool(timely), z3.BoolVal(got[0].header.service_type_ident not in ips.FORBIDDEN_WRAPPED_SERVICES), z3.BoolVal(len(got) == 1)]
            else:
                rep.reach["wrapper-dropped"] += 1
            st, mm = c.prove(z3.And(*conds))
            rep.ob(st, "secure-wrapper-handling", mcase(mm) if mm is not None else case, "wrapper forwarded without authentication/timeliness, or an unauthenticated wrapper moved the timer")
            rep.sample(dict(witness={k: v for k, v in case.items() if k not in ("key",)}, forwarded=bool(got)), limit=2)
        _, stt = core.explore(run, on_path=judge, stop=rep.enough, timeout=900)
        rep.add_stats(stt)
        return

    # outgoing timer values never decrease: value at t1, (possibly a received authentic wrapper validated in between), value at t2 >= t1
    def run(c):
        t1 = c.fresh_int("t1", 0, 1 << 46)
        dt = c.fresh_int("dt", 0, 1 << 46)
        clock = [t1]
        g, t, key, calls = mk_group(c, ips, types, clock)
        v1 = t.get_for_outgoing_secure_wrapper()
        rx = c.fresh_bytes("rx", 6)
        w = knxip.SecureWrapper(sequence_information=rx, serial_number=bytes(6), message_tag=bytes(2))
        ok = t.validate_secure_wrapper(w)
        clock[0] = t1 + dt
        v2 = t.get_for_outgoing_secure_wrapper()
        c.notes["inputs"] = dict(t1=t1, dt=dt, rx=rx)
        return v1, v2

    def judge(pr):
        c = pr.ctx
        m = c.current_model()
        case = dict(base_case(m, c), kind="outgoing")
        if pr.kind != "ok":
            rep.ob("refuted", "outgoing-raises:" + (exc_site(pr.value) if pr.kind == "raise" else pr.kind), case, repr(pr.value)); return
        v1, v2 = pr.value
        rep.reach["outgoing"] += 1
        st, mm = c.prove(v2 >= v1)
        rep.ob(st, "outgoing-timer-decreases", case if mm is None else dict(base_case(mm, c), kind="outgoing"), "outgoing timer value decreased")
        rep.sample(dict(witness=case))
    _, stt = core.explore(run, on_path=judge, stop=rep.enough)
    rep.add_stats(stt)


def replay(case):
    """Concrete re-run on the real code with a real event loop and a fake clock."""
    import asyncio
    from unittest.mock import Mock, patch
    import props.ds_common as dc
    from spec import ipsecure_reference as ref
    import xknx.io.ip_secure as ips
    import xknx.knxip as knxip
    from xknx.secure.security_primitives import calculate_message_authentication_code_cbc, encrypt_data_ctr
    bv = lambda ctr, k: list(((int.from_bytes(bytes(ctr), "big") + k) % (1 << 128)).to_bytes(16, "big"))

    async def go():
        key = bytes.fromhex(case.get("key", "00" * 16))
        now = [case.get("now", case.get("t1", 0))]
        n_calls = [0]
        _orig_reschedule = ips.SecureSequenceTimer.reschedule

        def _counting(self, *a, **k):
            n_calls[0] += 1
            return _orig_reschedule(self, *a, **k)
        with patch.object(ips.SecureSequenceTimer, "_monotonic_ms", lambda self: now[0]), patch.object(ips.SecureSequenceTimer, "reschedule", _counting):
            g = ips.SecureGroup(("127.0.0.1", 0), ("224.0.23.12", 3671), backbone_key=key, latency_ms=case.get("latency", 1000))
            t = g.secure_timer
            if "sync_latency" in case:
                t.sync_latency_tolerance_ms = case["sync_latency"]
            t._clock_difference = case.get("diff", 0)
            t.timer_authenticated = case.get("authenticated", True)
            t.timekeeper = case.get("timekeeper", False)
            t.sched_update = case.get("sched_update", False)
            got = []
            g.register_callback(lambda f, s, tr: got.append(f))
            sent = []
            t._transport_send = lambda frame, addr: sent.append(frame)
            try:
                if case["kind"] == "plain":
                    st = knxip.KNXIPServiceType[case["service"]]
                    frame = Mock()
                    frame.header.service_type_ident = st
                    frame.body = object()
                    g.handle_knxipframe(frame, knxip.HPAI())
                    allowed = st in ips.PLAIN_MULTICAST_SERVICES
                    if bool(got) != (st.name in ("SEARCH_REQUEST", "SEARCH_REQUEST_EXTENDED", "SEARCH_RESPONSE", "SEARCH_RESPONSE_EXTENDED", "DESCRIPTION_REQUEST", "DESCRIPTION_RESPONSE")):
                        return True, f"plain {st.name} forwarded={bool(got)}"
                    return False, "ok"
                if case["kind"] == "outgoing":
                    v1 = t.get_for_outgoing_secure_wrapper()
                    t.validate_secure_wrapper(knxip.SecureWrapper(sequence_information=bytes.fromhex(case["rx"])))
                    now[0] = case["t1"] + case["dt"]
                    v2 = t.get_for_outgoing_secure_wrapper()
                    return v2 < v1, f"{v1} then {v2}"
                d0, tk0 = t._clock_difference, t.timekeeper
                local = now[0] + d0
                if case["kind"] == "notify":
                    ser, tag = bytes.fromhex(case["serial"]), bytes.fromhex(case["tag"])
                    good = bytes(ref.timer_notify_mac(dc.real_enc, list(key), list(case["timer"].to_bytes(6, "big")), list(ser), list(tag)))
                    for mac in (bytes.fromhex(case["mac"]), good):
                        t._clock_difference, t.timekeeper = d0, tk0
                        fut = None
                        if case["pending"] != "none":
                            fut = asyncio.get_running_loop().create_future()
                            if case["pending"] == "done":
                                fut.cancel()
                            t._expected_notify_handler = (bytes.fromhex(case["exp_tag"]), fut)
                        n_calls[0] = 0
                        g.handle_knxipframe(knxip.KNXIPFrame.init_from_body(knxip.TimerNotify(timer_value=case["timer"], serial_number=ser, message_tag=tag, message_authentication_code=mac)), knxip.HPAI())
                        resolved = bool(fut and fut.done() and not fut.cancelled())
                        authentic = mac == good
                        if not authentic and (t._clock_difference != d0 or t.timekeeper != tk0 or n_calls[0] or resolved):
                            return True, "TimerNotify with invalid MAC changed the timer state"
                        if t._clock_difference < d0:
                            return True, "timer moved backwards"
                        is_reply = case["pending"] != "none" and ser == ips.XKNX_SERIAL_NUMBER and tag == bytes.fromhex(case["exp_tag"])
                        if authentic and not resolved and not is_reply:
                            exp = case["timer"] - now[0] if case["timer"] > local else d0
                            if t._clock_difference != exp:
                                return True, f"authentic TimerNotify {case['timer']} with local {local}: clock difference {t._clock_difference}, expected {exp}"
                    return False, "ok"
                raw = bytes.fromhex(case["raw"])
                sid, seq, ser, tag = raw[6:8], raw[8:14], raw[14:20], raw[20:22]
                inner = bytes([0x06, 0x10, 0x05, 0x30, 0x00, 0x06])
                hdr = bytes([0x06, 0x10, 0x09, 0x50, 0x00, 38 + len(inner)])
                mac_cbc = calculate_message_authentication_code_cbc(key=key, additional_data=hdr + sid, payload=inner, block_0=seq + ser + tag + len(inner).to_bytes(2, "big"))
                ct, mac = encrypt_data_ctr(key=key, counter_0=seq + ser + tag + b"\xff\x00", mac_cbc=mac_cbc, payload=inner)
                for r in (raw, hdr + sid + seq + ser + tag + ct + mac):
                    t._clock_difference = d0
                    del got[:]
                    n_calls[0] = 0
                    g.handle_knxipframe(knxip.KNXIPFrame.from_knx(r)[0], knxip.HPAI())
                    pairs, _ = ref.unwrap_check(dc.real_enc, bv, list(key), list(r[:6]), list(r[6:8]), list(r[8:14]), list(r[14:20]), list(r[20:22]), list(r[22:-16]), list(r[-16:]))
                    authentic = all(a == b for a, b in pairs) and r[6:8] == b"\x00\x00" and case["authenticated"]
                    rx = int.from_bytes(r[8:14], "big")
                    if got and not (authentic and rx > local - case["latency"]):
                        return True, f"wrapper forwarded: authentic={authentic} timer {rx} local {local} latency {case['latency']}"
                    if not authentic and (t._clock_difference != d0 or n_calls[0]):
                        return True, f"unauthenticated wrapper moved the timer ({d0} -> {t._clock_difference}) or rescheduled"
                    if t._clock_difference < d0:
                        return True, "timer moved backwards"
                return False, "ok"
            except Exception as e:  # noqa: BLE001
                return True, f"receive path raised {e!r}"
            finally:
                t.stop()
    return asyncio.run(go())
