"""C32 Device management requests get only their own answer (partial)."""
from __future__ import annotations

ID = "C32"
BOUNDS = {
    "quick": "(a) the matches predicates that read_property and write_property hand to request(), evaluated on every cEMI frame CEMIFrame.from_knx accepts from a symbolic raw frame of 7..10 octets (any message code): true only for the confirmation type of the request and the same object type, instance and property id (request: object type 11, instance 1 and 2, property 52 and 71); (b) _cemi_received on the same symbolic frames with a pending/absent/completed request future and with/without an indication callback: M_PropInfo.ind reaches the indication callback only, everything else completes the pending future at most once; (c) UDPDeviceManagementConnection._send_request stepped (symaio) over every schedule of acknowledgement outcomes per attempt {acknowledged, no ack with answer already received, no ack without answer, no ack with the request cancelled}: at most 4 transmissions, all with the same counter, counter + 1 (mod 256, symbolic start value) exactly when the request was accepted, disconnect and CommunicationError after 4 unacknowledged transmissions",
    "thorough": "as quick with raw frames up to 14 octets",
}
OUTSIDE = "the request lock (one outstanding request) and closing the connection while a request is pending: both are interleavings of tasks in the event loop (asyncio.Lock, future cancellation delivery, asyncio.timeout) and cannot be stepped as a single coroutine; TCP and secure connections beyond the shared code of (a) and (b)"
ASSUMPTIONS = ["the transport below _send_request is DeviceConfiguration.request(), replaced by a scripted awaitable whose outcome per attempt is chosen by the environment"]
EXPLANATION = "C32: the real matches lambdas, _same_property, CEMIFrame parsing, _cemi_received and the UDP repetition loop run on symbolic frames, counters and acknowledgement schedules."
INTERESTING = ["match", "no-match", "indication", "answer", "accepted", "given-up"]
REQUIRED_REACH = ["match", "no-match", "indication", "answer", "accepted", "given-up"]


def jobs(tier, seed):
    top = 10 if tier == "quick" else 14
    out = []
    for op in ("read", "write"):
        for L in range(7, top + 1):
            out.append(dict(name=f"matches-{op}-L{L}", kind="matches", op=op, L=L, cost=10))
    for L in range(7, top + 1):
        for pend in ("pending", "absent", "done"):
            for cb in (True, False):
                out.append(dict(name=f"received-L{L}-{pend}-{'cb' if cb else 'nocb'}", kind="received", L=L, pend=pend, cb=cb, cost=5))
    out.append(dict(name="send-request", kind="send", cost=10))
    return out


def mk_conn(cls_name="UDPDeviceManagementConnection", indication_callback=None):
    import xknx.io.device_management_connection as dm
    cls = getattr(dm, cls_name)
    conn = cls.__new__(cls)
    conn.gateway_ip, conn.gateway_port = "192.168.1.1", 3671
    conn.indication_callback = indication_callback
    conn.communication_channel = 7
    conn.sequence_number = 0
    conn._pending = None
    conn._data_endpoint_addr = None
    conn._disconnect_callback = None
    conn.local_hpai = None
    return conn


class FakeFuture:
    def __init__(self, state="pending"):
        self.state, self.results = state, []

    def done(self):
        return self.state != "pending"

    def cancelled(self):
        return self.state == "cancelled"

    def set_result(self, r):
        if self.state != "pending":
            raise RuntimeError("InvalidStateError")
        self.state = "done"
        self.results.append(r)


def capture_matches(op, instance, pid):
    """Run read_property/write_property up to its call of request() and return (request frame, matches)."""
    import xknx.io.device_management_connection as dm
    from symx import aio
    from xknx.profile.const import ResourceObjectType
    got = {}

    def fake_request(self, cemi, matches=None):
        got["cemi"], got["matches"] = cemi, matches

        def stop():
            raise aio.Stop()
        return aio.Ready(hook=stop)
    saved = dm._DeviceManagementConnection.request
    dm._DeviceManagementConnection.request = fake_request
    try:
        conn = mk_conn()
        ot = ResourceObjectType.OBJECT_KNXNETIP_PARAMETER
        coro = conn.read_property(ot, pid, object_instance=instance) if op == "read" else conn.write_property(ot, pid, b"\x01", object_instance=instance)
        aio.drive(coro)
    finally:
        dm._DeviceManagementConnection.request = saved
    return got["cemi"], got["matches"], ot


def run_job(job, rep):
    import types
    from symx import aio, core
    from vx.harness import trace_functions
    from vx.util import sym_eq
    import xknx.io.device_management_connection as dm
    from xknx.cemi import CEMIFrame, CEMIMessageCode
    from xknx.cemi.cemi_frame import CEMIMPropReadResponse, CEMIMPropWriteResponse
    from xknx.exceptions import CommunicationError, CouldNotParseCEMI, UnsupportedCEMIMessage

    quiet = types.SimpleNamespace(debug=lambda *a, **k: None, warning=lambda *a, **k: None, info=lambda *a, **k: None, exception=lambda *a, **k: None)
    dm.logger = quiet

    if job["kind"] == "matches":
        op, L = job["op"], job["L"]
        for instance, pid in ((1, 52), (2, 71)):
            req, matches, ot = capture_matches(op, instance, pid)

            def run(c):
                raw = c.fresh_bytes("r", L)
                c.notes["raw"] = raw
                try:
                    frame = CEMIFrame.from_knx(raw)
                except (CouldNotParseCEMI, UnsupportedCEMIMessage, ValueError):
                    return None
                f = lambda: matches(frame)
                return frame, (trace_functions(f, rep) if not rep.functions else f())

            def judge(pr):
                c = pr.ctx
                if pr.kind in ("unsupported", "timeout"):
                    rep.inconcl(f"{job['name']}: {pr.kind} {pr.value}"); return
                if pr.kind == "ok" and pr.value is None:
                    return
                m = c.current_model()
                mcase = lambda mm: dict(kind="matches", op=op, instance=instance, pid=pid, raw=c.notes["raw"].concrete(mm).hex())
                case = mcase(m)
                if pr.kind == "raise":
                    rep.ob("refuted", f"matches-raises:{type(pr.value).__name__}", case, repr(pr.value)); return
                frame, res = pr.value
                want_cls = CEMIMPropReadResponse if op == "read" else CEMIMPropWriteResponse
                want_code = CEMIMessageCode.M_PROP_READ_CON if op == "read" else CEMIMessageCode.M_PROP_WRITE_CON
                right_type = isinstance(frame.data, want_cls)      # M_PropInfo.ind shares the class; it never reaches matches (part b)
                if right_type:
                    pi = frame.data.property_info
                    same = core.sym_and(pi.object_type is ot, sym_eq(pi.object_instance, instance), sym_eq(pi.property_id, pid))
                else:
                    same = False
                # the predicate's verdict is concrete on a path (it forked on the comparisons): it must equal the reference
                st, mm = c.prove(sym_eq(bool(res), same) if core.is_sym(same) else (bool(res) == bool(same)))
                rep.reach["match" if res else "no-match"] += 1
                rep.ob(st, f"matches-wrong:{op}", mcase(mm) if mm is not None else case, f"matches() = {res} for a {type(frame.data).__name__} frame (code {frame.code.name})")
                rep.sample(dict(job=job["name"], witness=case, verdict=bool(res)), limit=2)
            _, st = core.explore(run, on_path=judge, stop=rep.enough, timeout=300)
            rep.add_stats(st)
        return

    if job["kind"] == "received":
        L = job["L"]

        def run(c):
            raw = c.fresh_bytes("r", L)
            c.notes["raw"] = raw
            calls = []
            conn = mk_conn(indication_callback=(calls.append if job["cb"] else None))
            fut = None if job["pend"] == "absent" else FakeFuture("pending" if job["pend"] == "pending" else "done")
            conn._pending = fut
            f = lambda: conn._cemi_received(raw)
            trace_functions(f, rep) if not rep.functions else f()
            try:
                frame = CEMIFrame.from_knx(raw)
            except (CouldNotParseCEMI, UnsupportedCEMIMessage, ValueError):
                frame = None
            return frame, calls, fut

        def judge(pr):
            c = pr.ctx
            if pr.kind in ("unsupported", "timeout"):
                rep.inconcl(f"{job['name']}: {pr.kind} {pr.value}"); return
            m = c.current_model()
            case = dict(kind="received", pend=job["pend"], cb=job["cb"], raw=c.notes["raw"].concrete(m).hex())
            if pr.kind == "raise":
                rep.ob("refuted", f"received-raises:{type(pr.value).__name__}", case, repr(pr.value)); return
            frame, calls, fut = pr.value
            delivered = len(fut.results) if fut is not None else 0
            if frame is None:
                ok = not calls and delivered == 0
            elif frame.code is CEMIMessageCode.M_PROP_INFO_IND:
                rep.reach["indication"] += 1
                ok = delivered == 0 and len(calls) == (1 if job["cb"] else 0)
            else:
                rep.reach["answer"] += 1
                ok = not calls and delivered == (1 if job["pend"] == "pending" else 0)
            rep.ob("proved" if ok else "refuted", "received-routing:" + ("indication" if frame is not None and frame.code is CEMIMessageCode.M_PROP_INFO_IND else "other"), case,
                   f"{'unparsable' if frame is None else frame.code.name}: indication callback calls {len(calls)}, pending completed {delivered}")
            rep.sample(dict(job=job["name"], witness=case), limit=1)
        _, st = core.explore(run, on_path=judge, stop=rep.enough, timeout=300)
        rep.add_stats(st)
        return

    # ---- UDP repetition loop
    OUT = ["ack", "noack-answered", "noack-silent", "noack-cancelled"]

    def run(c):
        from xknx.cemi import CEMIFrame as CF
        from xknx.cemi.cemi_frame import CEMIMPropInfo, CEMIMPropReadRequest
        from xknx.io.request_response import RequestResponse
        from xknx.exceptions import XKNXException
        from xknx.profile.const import ResourceObjectType
        log = []
        seq0 = c.fresh_int("seq0", 0, 255)
        conn = mk_conn()
        conn.sequence_number = seq0
        conn.transport = types.SimpleNamespace()
        schedule = []

        class FakeDC:
            def __init__(self, transport, data_endpoint, device_configuration_request, timeout_in_seconds):
                self.req = device_configuration_request
                log.append(("tx", device_configuration_request.sequence_counter, device_configuration_request.communication_channel_id, timeout_in_seconds))

            def request(self):
                i = len(schedule)
                o = OUT[core.concretize(c.fresh_int(f"o{i}", 0, len(OUT) - 1))]
                schedule.append(o)
                if o == "ack":
                    return aio.Ready()
                conn._pending = FakeFuture({"noack-answered": "done", "noack-silent": "pending", "noack-cancelled": "cancelled"}[o])
                return aio.Ready(exc=dm.RequestResponseError("no ack"))
        dm.DeviceConfiguration = FakeDC

        def fake_disconnect():
            log.append(("disconnect",))
            return aio.Ready()
        saved = dm._DeviceManagementConnection.disconnect
        dm._DeviceManagementConnection.disconnect = lambda self: fake_disconnect()
        c.notes.update(seq0=seq0, schedule=schedule)
        cemi = CF(code=CEMIMessageCode.M_PROP_READ_REQ, data=CEMIMPropReadRequest(property_info=CEMIMPropInfo(object_type=ResourceObjectType.OBJECT_KNXNETIP_PARAMETER, object_instance=1, property_id=52)))
        try:
            f = lambda: aio.drive(conn._send_request(cemi))
            try:
                r = ("ok", trace_functions(f, rep) if not rep.functions else f())
            except CommunicationError as e:
                r = ("comm-error", e)
        finally:
            dm._DeviceManagementConnection.disconnect = saved
        return r, log, conn.sequence_number

    def judge(pr):
        c = pr.ctx
        if pr.kind in ("unsupported", "timeout"):
            rep.inconcl(f"send: {pr.kind} {pr.value}"); return
        m = c.current_model()
        n = c.notes
        mcase = lambda mm: dict(kind="send", seq0=core.model_val(mm, n["seq0"]), schedule=list(n["schedule"]))
        case = mcase(m)
        if pr.kind == "raise":
            rep.ob("refuted", f"send-raises:{type(pr.value).__name__}", case, repr(pr.value)); return
        (how, _), log, seq1 = pr.value
        sched = n["schedule"]
        txs = [e for e in log if e[0] == "tx"]
        accepted = bool(sched) and sched[-1] in ("ack", "noack-answered")
        problems = []
        if len(txs) != len(sched) or len(txs) > 4:
            problems.append(f"{len(txs)} transmissions for schedule {sched}")
        if any(t[1] is not n["seq0"] and not (isinstance(t[1], int) and t[1] == case["seq0"]) for t in txs):
            problems.append("a repetition does not carry the counter of the first transmission")
        if any(t[2] != 7 for t in txs):
            problems.append("wrong communication channel")
        if accepted:
            rep.reach["accepted"] += 1
            if how != "ok" or ("disconnect",) in log:
                problems.append(f"accepted request ended with {how}")
            cond = sym_eq(seq1, (n["seq0"] + 1) & 0xFF)
        else:
            rep.reach["given-up"] += 1
            if how != "comm-error" or log.count(("disconnect",)) != 1 or len(sched) != 4:
                problems.append(f"unacknowledged request: {how}, disconnects {log.count(('disconnect',))}, transmissions {len(sched)}")
            cond = sym_eq(seq1, n["seq0"])
        if problems:
            rep.ob("refuted", "send-request:" + problems[0].split(":")[0][:40], case, "; ".join(problems)); return
        st, mm = c.prove(cond)
        rep.ob(st, "send-request:counter", mcase(mm) if mm is not None else case, f"sequence counter after the request: {seq1!r}")
        rep.sample(dict(job="send", witness=case), limit=2)
    _, st = core.explore(run, on_path=judge, stop=rep.enough, timeout=300)
    rep.add_stats(st)


def replay(case):
    import asyncio
    import xknx.io.device_management_connection as dm
    from xknx.cemi import CEMIFrame, CEMIMessageCode
    from xknx.cemi.cemi_frame import CEMIMPropInfo, CEMIMPropReadRequest, CEMIMPropReadResponse, CEMIMPropWriteResponse
    from xknx.exceptions import CommunicationError, CouldNotParseCEMI, UnsupportedCEMIMessage
    from xknx.profile.const import ResourceObjectType
    ot = ResourceObjectType.OBJECT_KNXNETIP_PARAMETER

    if case["kind"] == "matches":
        got = {}

        async def fake_request(self, cemi, matches=None):
            got["matches"] = matches
            raise CommunicationError("stop here")
        saved = dm._DeviceManagementConnection.request
        dm._DeviceManagementConnection.request = fake_request
        try:
            conn = mk_conn()
            coro = conn.read_property(ot, case["pid"], object_instance=case["instance"]) if case["op"] == "read" else conn.write_property(ot, case["pid"], b"\x01", object_instance=case["instance"])
            try:
                asyncio.run(coro)
            except CommunicationError:
                pass
        finally:
            dm._DeviceManagementConnection.request = saved
        try:
            frame = CEMIFrame.from_knx(bytes.fromhex(case["raw"]))
        except (CouldNotParseCEMI, UnsupportedCEMIMessage, ValueError):
            return False, "unparsable"
        res = got["matches"](frame)
        want_cls = CEMIMPropReadResponse if case["op"] == "read" else CEMIMPropWriteResponse
        ref = isinstance(frame.data, want_cls) and frame.data.property_info.object_type is ot and frame.data.property_info.object_instance == case["instance"] and frame.data.property_info.property_id == case["pid"]
        if bool(res) != bool(ref):
            return True, f"{case['op']}_property({ot.name}, {case['pid']}, instance {case['instance']}): matches({frame}) = {res}"
        return False, "ok"
    if case["kind"] == "received":
        calls = []
        conn = mk_conn(indication_callback=(calls.append if case["cb"] else None))
        fut = None if case["pend"] == "absent" else FakeFuture("pending" if case["pend"] == "pending" else "done")
        conn._pending = fut
        try:
            conn._cemi_received(bytes.fromhex(case["raw"]))
        except Exception as e:  # noqa: BLE001
            return True, f"_cemi_received raised {e!r}"
        try:
            frame = CEMIFrame.from_knx(bytes.fromhex(case["raw"]))
        except (CouldNotParseCEMI, UnsupportedCEMIMessage, ValueError):
            frame = None
        delivered = len(fut.results) if fut is not None else 0
        if frame is None:
            ok = not calls and delivered == 0
        elif frame.code is CEMIMessageCode.M_PROP_INFO_IND:
            ok = delivered == 0 and len(calls) == (1 if case["cb"] else 0)
        else:
            ok = not calls and delivered == (1 if case["pend"] == "pending" else 0)
        return (not ok), f"{case}: indication callback calls {len(calls)}, pending completed {delivered}"

    # send
    async def go():
        conn = mk_conn()
        conn.sequence_number = case["seq0"]
        import types
        conn.transport = types.SimpleNamespace()
        sched = list(case["schedule"])
        txs, disc = [], []

        class FakeDC:
            def __init__(self, transport, data_endpoint, device_configuration_request, timeout_in_seconds):
                txs.append(device_configuration_request.sequence_counter)

            async def request(self):
                o = sched.pop(0) if sched else "noack-silent"
                if o == "ack":
                    return
                conn._pending = FakeFuture({"noack-answered": "done", "noack-silent": "pending", "noack-cancelled": "cancelled"}[o])
                raise dm.RequestResponseError("no ack")
        saved_dc, saved_disc = dm.DeviceConfiguration, dm._DeviceManagementConnection.disconnect

        async def fake_disconnect(self):
            disc.append(1)
        dm.DeviceConfiguration = FakeDC
        dm._DeviceManagementConnection.disconnect = fake_disconnect
        try:
            cemi = CEMIFrame(code=CEMIMessageCode.M_PROP_READ_REQ, data=CEMIMPropReadRequest(property_info=CEMIMPropInfo(object_type=ot, object_instance=1, property_id=52)))
            try:
                await conn._send_request(cemi)
                how = "ok"
            except CommunicationError:
                how = "comm-error"
        finally:
            dm.DeviceConfiguration, dm._DeviceManagementConnection.disconnect = saved_dc, saved_disc
        s = case["schedule"]
        accepted = bool(s) and s[-1] in ("ack", "noack-answered")
        want_seq = (case["seq0"] + 1) & 0xFF if accepted else case["seq0"]
        if len(txs) > 4 or any(t != case["seq0"] for t in txs) or conn.sequence_number != want_seq or (accepted and how != "ok") or (not accepted and (how != "comm-error" or len(disc) != 1)):
            return True, f"{case}: transmissions {txs}, counter afterwards {conn.sequence_number} (expected {want_seq}), outcome {how}, disconnects {len(disc)}"
        return False, "ok"
    return asyncio.run(go())
