"""Symbolic-aware replacements for the builtins that xknx modules reach through their module globals.

Every shim behaves exactly like the builtin on concrete values (validated at start-up by selfcheck.py) and keeps
symbolic values symbolic otherwise.
"""
from __future__ import annotations

import builtins
import struct as _struct

import z3

from . import core
from .core import (SymBool, SymBytes, SymInt, Unsupported, check_byte, concretize, ctx, has_sym, int_from_bytes,
                   int_to_bytes, is_sym, mk_bool, mk_int, sym_not, zint)


def _fp():
    from . import fp
    return fp


class _ShimMeta(type):
    def __instancecheck__(cls, obj):
        return builtins.isinstance(obj, cls._real) or builtins.isinstance(obj, cls._sym())

    def __subclasscheck__(cls, sub):
        return builtins.issubclass(sub, cls._real)

    def __getattr__(cls, name):
        return getattr(cls._real, name)

    def __or__(cls, other):
        return _UnionShim((cls, other))

    def __ror__(cls, other):
        return _UnionShim((other, cls))

    def __eq__(cls, other):
        return other is cls or other is cls._real

    def __hash__(cls):
        return hash(cls._real)

    def __repr__(cls):
        return repr(cls._real)


class _UnionShim:
    def __init__(self, members):
        self.members = tuple(members)

    def __instancecheck__(self, obj):
        return any(isinstance_shim(obj, m) for m in self.members)

    def __or__(self, o):
        return _UnionShim(self.members + (o,))

    def __ror__(self, o):
        return _UnionShim((o,) + self.members)


class bytes_shim(metaclass=_ShimMeta):
    _real = builtins.bytes
    _sym = staticmethod(lambda: SymBytes)

    def __new__(cls, src=b"", *a):
        if isinstance(src, SymBytes):
            return SymBytes(src.b, False)
        if isinstance(src, SymInt):
            return builtins.bytes(concretize(src))
        if isinstance(src, (builtins.bytes, builtins.bytearray, builtins.int, str)):
            return builtins.bytes(src, *a)
        if hasattr(src, "__bytes__"):
            return src.__bytes__()
        src = list(src)
        if has_sym(src):
            for e in src:
                check_byte(e)
            return SymBytes(src, False)
        return builtins.bytes(src)

    @staticmethod
    def fromhex(s):
        return builtins.bytes.fromhex(s)


class bytearray_shim(metaclass=_ShimMeta):
    _real = builtins.bytearray
    _sym = staticmethod(lambda: SymBytes)

    def __new__(cls, src=b"", *a):
        # always a SymBytes: a real bytearray would concretise symbolic values on extend()/append()
        if isinstance(src, SymBytes):
            return SymBytes(src.b, True)
        if isinstance(src, SymInt):
            src = concretize(src)
        if isinstance(src, (builtins.int, str)):
            return SymBytes(list(builtins.bytearray(src, *a)), True)
        src = list(src)
        for e in src:
            check_byte(e)
        return SymBytes(src, True)

    @staticmethod
    def fromhex(s):
        return SymBytes(list(builtins.bytes.fromhex(s)), True)


class int_shim(metaclass=_ShimMeta):
    _real = builtins.int
    _sym = staticmethod(lambda: SymInt)

    def __new__(cls, v=0, *a):
        if isinstance(v, SymInt):
            return v
        if isinstance(v, SymBool):
            return v._i()
        if isinstance(v, core.SymFloatBase):
            return v.__int__sym__()
        if isinstance(v, str) and core._ctx is not None and not a:
            ph = core._ctx.ph
            if ph:
                s = v.strip()
                if s in ph:
                    pv = ph[s]
                    if isinstance(pv, core.SymFloatBase):
                        raise ValueError("invalid literal for int() with base 10")
                    return pv
        return builtins.int(v, *a)

    from_bytes = staticmethod(int_from_bytes)
    to_bytes = staticmethod(int_to_bytes)


class bool_shim(metaclass=_ShimMeta):
    _real = builtins.bool
    _sym = staticmethod(lambda: SymBool)

    def __new__(cls, v=False):
        if isinstance(v, SymBool):
            return v
        if isinstance(v, SymInt):
            return mk_bool(v.z != 0)
        if isinstance(v, core.SymFloatBase):
            return v != 0.0
        return builtins.bool(v)


class float_shim(metaclass=_ShimMeta):
    _real = builtins.float
    _sym = staticmethod(lambda: _fp().SymFloat)

    def __new__(cls, v=0.0):
        if isinstance(v, core.SymFloatBase):
            return v
        if is_sym(v):
            return _fp().to_symfloat(v)
        if isinstance(v, str) and core._ctx is not None and core._ctx.ph:
            s = v.strip()
            if s in core._ctx.ph:
                return _fp().to_symfloat(core._ctx.ph[s])
        return builtins.float(v)

    @staticmethod
    def fromhex(s):
        return builtins.float.fromhex(s)


_REAL_OF = {}


def isinstance_shim(obj, t):
    if builtins.isinstance(t, tuple):
        return any(isinstance_shim(obj, m) for m in t)
    if builtins.isinstance(t, _UnionShim):
        return any(isinstance_shim(obj, m) for m in t.members)
    if builtins.isinstance(obj, (SymInt, SymBool, SymBytes, core.SymFloatBase)):
        import types
        import typing
        if builtins.isinstance(t, types.UnionType) or typing.get_origin(t) is typing.Union:
            return any(isinstance_shim(obj, m) for m in typing.get_args(t))
        if builtins.isinstance(obj, SymBool):
            return t in (builtins.bool, builtins.int, bool_shim, int_shim, object)
        if builtins.isinstance(obj, SymInt):
            return t in (builtins.int, int_shim, object)
        if builtins.isinstance(obj, SymBytes):
            if t is object:
                return True
            if obj.mutable:
                return t in (builtins.bytearray, bytearray_shim)
            return t in (builtins.bytes, bytes_shim)
        if builtins.isinstance(obj, core.SymFloatBase):
            return t in (builtins.float, float_shim, object)
    return builtins.isinstance(obj, t)


_FMT = {"B": (1, False), "b": (1, True), "H": (2, False), "h": (2, True), "I": (4, False), "i": (4, True),
        "L": (4, False), "l": (4, True), "Q": (8, False), "q": (8, True)}


def _parse_fmt(fmt):
    order = "big"
    if fmt[0] in "!>":
        fmt = fmt[1:]
    elif fmt[0] == "<":
        order = "little"
        fmt = fmt[1:]
    else:
        raise Unsupported("native struct format")
    items, num = [], ""
    for ch in fmt:
        if ch.isdigit():
            num += ch
            continue
        n = builtins.int(num) if num else 1
        num = ""
        if ch == "s":
            items.append(("s", n))
        elif ch == "x":
            items.append(("x", n))
        elif ch in _FMT or ch in "fde":
            items.extend([(ch, 1)] * n)
        else:
            raise Unsupported("struct fmt " + ch)
    return order, items


def _isz(k):
    return {"f": 4, "d": 8, "e": 2}.get(k) or _FMT[k][0]


class struct_shim:
    error = _struct.error
    calcsize = staticmethod(_struct.calcsize)
    Struct = _struct.Struct

    @staticmethod
    def unpack(fmt, data):
        if not isinstance(data, SymBytes) or not has_sym(data.b):
            return _struct.unpack(fmt, builtins.bytes(list(data)) if isinstance(data, SymBytes) else data)
        order, items = _parse_fmt(fmt)
        size = sum(n if k in "sx" else _isz(k) for k, n in items)
        if len(data) != size:
            raise _struct.error("unpack requires a buffer of %d bytes" % size)
        out, pos = [], 0
        for k, n in items:
            if k == "s":
                out.append(SymBytes(data.b[pos:pos + n]))
                pos += n
            elif k == "x":
                pos += n
            elif k in "fde":
                w = _isz(k)
                out.append(_fp().float_from_bytes(data.b[pos:pos + w], order, w))
                pos += w
            else:
                w, sg = _FMT[k]
                out.append(int_from_bytes(SymBytes(data.b[pos:pos + w]), order, signed=sg))
                pos += w
        return tuple(out)

    @staticmethod
    def unpack_from(fmt, data, offset=0):
        return struct_shim.unpack(fmt, data[offset:offset + _struct.calcsize(fmt)])

    @staticmethod
    def pack(fmt, *vals):
        if not any(isinstance(v, (SymInt, SymBool, SymBytes, core.SymFloatBase)) for v in vals):
            return _struct.pack(fmt, *vals)
        order, items = _parse_fmt(fmt)
        vals = list(vals)
        out = []
        need = sum(1 for k, n in items if k != "x")
        if len(vals) != need:
            raise _struct.error("pack expected %d items for packing (got %d)" % (need, len(vals)))
        for k, n in items:
            if k == "x":
                out.extend([0] * n)
                continue
            v = vals.pop(0)
            if k == "s":
                if not isinstance_shim(v, (builtins.bytes, builtins.bytearray)):
                    raise _struct.error("argument for 's' must be a bytes object")
                bs = list(v)[:n]
                bs += [0] * (n - len(bs))
                out.extend(bs)
            elif k in "fde":
                out.extend(_fp().float_to_bytes(v, order, _isz(k)))
            else:
                w, sg = _FMT[k]
                if not isinstance(v, (builtins.int, SymInt, SymBool)):
                    raise _struct.error("required argument is not an integer")
                try:
                    out.extend(list(int_to_bytes(v, w, order, signed=sg)))
                except OverflowError as e:
                    raise _struct.error(str(e)) from None
        return SymBytes(out) if has_sym(out) else builtins.bytes(out)


def sym_join(sep, parts):
    parts = list(parts)
    if not any(isinstance(p, SymBytes) for p in parts):
        return sep.join(parts)
    out = []
    for i, p in enumerate(parts):
        if i and sep:
            out.extend(list(sep))
        if not isinstance(p, (builtins.bytes, builtins.bytearray, SymBytes)):
            raise TypeError("sequence item %d: expected a bytes-like object" % i)
        out.extend(list(p))
    return SymBytes(out)


def round_shim(x, n=None):
    if isinstance(x, core.SymFloatBase):
        return x.__round__(n)
    if is_sym(x):
        return x if not isinstance(x, SymBool) else x._i()
    return builtins.round(x) if n is None else builtins.round(x, n)


def abs_shim(x):
    return x.__abs__() if isinstance(x, (SymInt, core.SymFloatBase)) else builtins.abs(x)


def min_shim(*a, **kw):
    if len(a) == 1:
        a = tuple(a[0])
    if kw or not any(is_sym(x) or isinstance(x, core.SymFloatBase) for x in a):
        return builtins.min(*a, **kw)
    if any(isinstance(x, (core.SymFloatBase, builtins.float)) for x in a):
        r = a[0]
        for x in a[1:]:
            r = _fp().fite(x < r, x, r)
        return r
    r = a[0]
    for x in a[1:]:
        r = core.ite(x < r, x, r)
    return r


def max_shim(*a, **kw):
    if len(a) == 1:
        a = tuple(a[0])
    if kw or not any(is_sym(x) or isinstance(x, core.SymFloatBase) for x in a):
        return builtins.max(*a, **kw)
    if any(isinstance(x, (core.SymFloatBase, builtins.float)) for x in a):
        r = a[0]
        for x in a[1:]:
            r = _fp().fite(x > r, x, r)
        return r
    r = a[0]
    for x in a[1:]:
        r = core.ite(x > r, x, r)
    return r


def divmod_shim(a, b):
    if is_sym(a) or is_sym(b):
        return a // b, a % b
    return builtins.divmod(a, b)


def hex_shim(x):
    if is_sym(x):
        return ctx().placeholder(x)
    return builtins.hex(x)


DECODE_MODE = {"mode": "placeholder"}


def decode_bytes(sb, encoding="utf-8", errors="strict"):
    """Decoding symbolic bytes to str.  Strings are outside symx: by default the result is an opaque placeholder str
    (total codecs only: latin_1, or any codec with errors='replace'/'ignore'); harnesses that care about the text set
    DECODE_MODE['mode']='fork' to concretise every octet by forking instead."""
    if not has_sym(sb.b):
        return builtins.bytes(sb.b).decode(encoding, errors)
    enc = encoding.lower().replace("-", "_")
    total = enc in ("latin_1", "latin1", "iso_8859_1", "iso8859_1") or errors in ("replace", "ignore")
    if DECODE_MODE["mode"] == "placeholder" and total:
        return _symstr(SymBytes(sb.b), "text:" + enc)
    return builtins.bytes(concretize(e, limit=300) for e in sb.b).decode(encoding, errors)


def address_hash_shim(x):
    if builtins.isinstance(x, tuple) and len(x) == 2 and builtins.isinstance(x[0], type):
        return builtins.hash(x[0])
    return builtins.hash(x)


class SymStr(str):
    """A real str (digit-only placeholder) that remembers the symbolic bytes it renders (IPv4 / hex strings)."""
    __slots__ = ("sym", "kind")


def _symstr(sb, kind):
    s = SymStr(ctx().placeholder(sb))
    s.sym = sb
    s.kind = kind
    return s


class socket_shim:
    """inet_ntoa / inet_aton keep symbolic octets symbolic (the dotted string is a placeholder)."""
    import socket as _real

    def __getattr__(self, k):
        return getattr(self._real, k)

    def inet_ntoa(self, b):
        if isinstance(b, SymBytes) and has_sym(b.b):
            if len(b) != 4:
                raise OSError("packed IP wrong length for inet_ntoa")
            return _symstr(SymBytes(b.b), "ip")
        return self._real.inet_ntoa(builtins.bytes(list(b)) if isinstance(b, SymBytes) else b)

    def inet_aton(self, s):
        if isinstance(s, SymStr) and s.kind == "ip":
            return SymBytes(s.sym.b)
        return self._real.inet_aton(s)


SHIMS = {
    "bytes": bytes_shim, "bytearray": bytearray_shim, "int": int_shim, "bool": bool_shim, "float": float_shim,
    "isinstance": isinstance_shim, "round": round_shim, "abs": abs_shim, "min": min_shim, "max": max_shim,
    "divmod": divmod_shim, "hex": hex_shim,
}
