"""C40 Cover position estimates stay within bounds and never fail."""
from __future__ import annotations

ID = "C40"
BOUNDS = {
    "quick": "one step from an arbitrary valid TravelCalculator state: last known position and target from {0, 37, 100} (all 9 pairs), every travel direction (UP, DOWN, STOPPED), confirmed flag where last == target, travel times (down, up) = (25, 20) s and (0.5, 0.5) s; the stored timestamp is 1000.0 s; every time.time() call is its own symbolic reading t = 1000 + k * 2^-10 s (k integer, 0 <= k < 2^16, i.e. up to 64 s later), non-decreasing across calls, optionally forced equal to the previous reading; steps: current_position(), two successive current_position() calls whose readings are equal or one tick (2^-10 s) apart (monotonicity for all pairs of readings follows by induction over ticks), stop(), start_travel(p), update_position(p), set_position(p) with p from the same set, each followed by current_position()/is_traveling(); Cover.current_position() delegates to the same calculator",
    "thorough": "as quick plus travel times (600, 600) with k < 2^21 (query and stop steps), positions {0, 1, 37, 100} and the timestamp 1.75e9 s; plus a full-width hunt where readings are arbitrary finite doubles in [0, 2^31] (counterexamples only, 120 s per query)",
}
OUTSIDE = "clock readings that are not multiples of 2^-10 s or more than 64 s (2048 s for 600 s travel times) after the timestamp; other timestamps; positions outside the stated set; non-monotonic clocks; Cover's periodic update and auto-stop tasks"
ASSUMPTIONS = [
    "valid state = what the public methods can produce: positions 0..100 or unknown; confirmed only when last == target; timestamp = an earlier clock reading",
    "'reaches it exactly when the travel time has elapsed' is checked as: a query whose clock reading is >= timestamp + remaining travel time returns the target, and no earlier query returns a value beyond the target; truncation toward zero may show the target up to one position early on upward travel (int() semantics of the estimate, not treated as a violation)",
]
EXPLANATION = "C40: the real TravelCalculator methods run from a directly constructed symbolic state with time.time replaced by a stub that returns a fresh, non-decreasing symbolic reading per call; the bounds, monotonicity, arrival and totality conditions are z3 Float64 obligations per path."
INTERESTING = ["query", "after-stop", "after-start", "after-report"]
REQUIRED_REACH = ["query", "after-stop", "after-start", "after-report"]

TICK = 2.0 ** -10


def positions(tier):
    return [0, 37, 100] if tier == "quick" else [0, 1, 37, 100]


def jobs(tier, seed):
    tts = [(25, 20), (0.5, 0.5)] + ([(600, 600)] if tier != "quick" else [])
    out = []
    for tt in tts:
        for last in positions(tier):
            for step in (("query", "query2", "stop", "start", "report", "setpos") if tt == (25, 20) else ("query", "stop")):
                if step == "query2":
                    out += [dict(name=f"query2-tt{tt[0]}-last{last}-target{tg}-{'stopped' if stopped else 'moving'}", step=step, tt=tt, last=last, only_target=tg, only_stopped=stopped, tier=tier, mode="tick", cost=100)
                            for tg in positions(tier) if tg != last for stopped in (False, True)]
                    continue
                out.append(dict(name=f"{step}-tt{tt[0]}-last{last}", step=step, tt=tt, last=last, tier=tier, mode="tick", cost=20 if step == "stop" else 8))
    if tier != "quick":
        out += [dict(j, name=j["name"] + "-epoch", ts=1.75e9) for j in out if j["tt"] == (25, 20) and j["step"] in ("query", "report")]
    out.append(dict(name="unknown-position", step="unknown", tt=(25, 20), last=None, tier=tier, mode="tick", cost=1))
    if tier != "quick":
        for last in (0, 37, 100):
            out.append(dict(name=f"hunt-query-last{last}", step="query", tt=(25, 20), last=last, tier=tier, mode="free", cost=200))
    return out


def build(job_tt, last, target, direction, confirmed, ts):
    from xknx.devices.travelcalculator import TravelCalculator, TravelStatus
    tc = TravelCalculator(travel_time_down=job_tt[0], travel_time_up=job_tt[1])
    tc._last_known_position = last
    tc._travel_to_position = target
    tc.travel_direction = TravelStatus[direction]
    tc._position_confirmed = confirmed
    tc._last_known_position_timestamp = ts
    return tc


def run_job(job, rep):
    import types
    import z3
    from symx import core, fp
    from vx.harness import trace_functions
    from vx.util import sym_eq
    import xknx.devices.travelcalculator as tcm

    fp.MODE["mode"] = "exact"
    fp.MODE["round_ndigits"] = None
    core.QUERY_TIMEOUT_MS[0] = (150000 if job["step"] == "query2" else 40000) if job["tier"] == "quick" else 200000
    POS = positions(job["tier"])
    tt = tuple(job["tt"])
    step = job["step"]
    free = job["mode"] == "free"

    DBITS = 16 if max(tt) <= 30 else 21          # normal readings: up to 64 s (resp. 2048 s) after the timestamp
    TS = job.get("ts", 1000.0)

    def tick_float(d, bits):
        """ts + d * 2^-10 as a Float64 term over the low `bits`+1 bits of d (exact: both are multiples of 2^-10)."""
        z = z3.fpAdd(fp.RNE, z3.FPVal(TS, fp.F64), z3.fpMul(fp.RNE, z3.fpSignedToFP(fp.RNE, z3.Extract(bits, 0, d.z), fp.F64), z3.FPVal(TICK, fp.F64)))
        return fp.SymFloat(z, (TS, TS + (1 << bits) * TICK))

    class Clock:
        """time.time() stub: a fresh non-decreasing reading per call."""

        def __init__(self, c, start_k, equal=False):
            self.c, self.prev, self.reads, self.equal = c, start_k, [], equal

        def time(self):
            c = self.c
            i = len(self.reads)
            if free:
                t = fp.fresh_float(c, f"t{i}")
                c.add(core.mk_bool(z3.And(z3.fpGEQ(t.z, fp.fval(self.prev)), z3.fpLEQ(t.z, z3.FPVal(2.0 ** 31, fp.F64)))))
                self.prev = t
                self.reads.append(t)
                return t
            k = c.fresh_int(f"k{i}", 0, (1 << DBITS) - 1)
            eq = self.equal == "all" or (self.equal == "after-first" and i > 0)
            if self.equal == "adjacent" and i > 0:
                c.add(core.sym_or(k == self.prev, k == self.prev + 1))
            else:
                c.add(k == self.prev if eq else k >= self.prev)
            self.prev = k
            self.reads.append(k)
            return tick_float(k, DBITS)

    def reading_json(m, r):
        return fp.model_float(m, r) if free else TS + core.model_val(m, r) * TICK

    def states(last):
        for target in POS:
            for direction in ("DIRECTION_UP", "DIRECTION_DOWN", "STOPPED"):
                yield target, direction, False
            if target == last:
                yield target, "STOPPED", True

    def between(x, a, b):
        lo, hi = (a, b) if a <= b else (b, a)
        return core.sym_and(x >= lo, x <= hi)

    def fp_same(a, b):
        za, zb = fp.fval(a), fp.fval(b)
        return bool(z3.simplify(za).eq(z3.simplify(zb))) or core.mk_bool(z3.fpEQ(za, zb))

    def is_int(x):
        return isinstance(x, (int, core.SymInt)) and not isinstance(x, bool)

    if step == "unknown":
        def run(c):
            clock = Clock(c, 0)
            tcm.time = types.SimpleNamespace(time=clock.time)
            tc = build(tt, None, None, "STOPPED", False, 0.0)
            r = [tc.current_position(), tc.is_traveling()]
            tc.stop()
            r.append(tc.current_position())
            tc.update_position(50)
            r.append(tc.current_position())
            tc2 = build(tt, None, None, "STOPPED", False, 0.0)
            tc2.start_travel(30)
            r.append(tc2.current_position())
            return r

        def judge(pr):
            case = dict(step="unknown", tt=list(tt))
            if pr.kind != "ok":
                rep.ob("refuted", f"raises:unknown:{type(pr.value).__name__}", case, repr(pr.value)); return
            ok = pr.value[0] is None and pr.value[1] is False and pr.value[2] is None and pr.value[4] == 30
            rep.ob("proved" if ok else "refuted", "unknown-position-handling", case, repr(pr.value))
        _, st = core.explore(run, on_path=judge, timeout=30)
        rep.add_stats(st)
        return

    last = job["last"]
    for target, direction, confirmed in states(last):
        if job.get("only_target") is not None and target != job["only_target"]:
            continue
        if job.get("only_stopped") is not None and (direction == "STOPPED") != job["only_stopped"]:
            continue
        if step == "query2" and direction not in (("DIRECTION_DOWN" if target > last else "DIRECTION_UP"), "STOPPED"):
            continue                                  # reached-or-exceeded states return the target without arithmetic (covered by "query")
        for equal in ((None, "all") if step in ("query", "stop") else ("adjacent",) if step == "query2" else (None,)):
            for p in (POS if step in ("start", "report", "setpos") else (None,)):
                label = f"{step}[last={last},target={target},{direction},confirmed={confirmed},p={p},equal={equal}]"

                def run(c):
                    ts = TS
                    clock = Clock(c, ts if free else 0, equal)
                    tcm.time = types.SimpleNamespace(time=clock.time)
                    tc = build(tt, last, target, direction, confirmed, ts)
                    c.notes.update(clock=clock)
                    out = {}
                    if step == "query":
                        f = tc.current_position
                        out["pos"] = trace_functions(f, rep) if not rep.functions else f()
                        out["traveling"] = tc.is_traveling()
                    elif step == "query2":
                        out["pos1"] = tc.current_position()
                        out["pos2"] = tc.current_position()
                    elif step == "stop":
                        tc.stop()
                        out["last"] = tc._last_known_position
                        out["pos"] = tc.current_position()
                        out["traveling"] = tc.is_traveling()
                    elif step in ("start", "report", "setpos"):
                        # inductive step: the command's post-state (fields) is checked; what later queries return from that
                        # post-state is the subject of the query/query2 steps, which start from every such state
                        {"start": tc.start_travel, "report": tc.update_position, "setpos": tc.set_position}[step](p)
                        out.update(last=tc._last_known_position, target=tc._travel_to_position, direction=tc.travel_direction.name,
                                   confirmed=tc._position_confirmed, ts=tc._last_known_position_timestamp)
                    return out

                def judge(pr, label=label, target=target, direction=direction, confirmed=confirmed, p=p, equal=equal):
                    c = pr.ctx
                    if pr.kind in ("unsupported", "timeout"):
                        rep.inconcl(f"{label}: {pr.kind} {pr.value}"); return
                    m = c.current_model()
                    clock = c.notes.get("clock")
                    mcase = lambda mm: dict(step=step, tt=list(tt), last=last, target=target, direction=direction, confirmed=confirmed, p=p, mode=job["mode"],
                                            ts=TS, reads=[reading_json(mm, r) for r in clock.reads])
                    case = mcase(m)
                    if pr.kind == "raise":
                        rep.ob("refuted", f"raises:{step}:{type(pr.value).__name__}", case, repr(pr.value)); return
                    o = pr.value
                    conds = []
                    if step == "query":
                        rep.reach["query"] += 1
                        if not is_int(o["pos"]):
                            rep.ob("refuted", "estimate-not-int:query", case, repr(o["pos"])); return
                        conds.append(("estimate-out-of-bounds:query", between(o["pos"], last, target)))
                        if equal and not free:
                            conds.append(("traveling-flag:query", sym_eq(o["traveling"], core.sym_not(o["pos"] == target))))
                    elif step == "query2":
                        rep.reach["query"] += 1
                        if not (is_int(o["pos1"]) and is_int(o["pos2"])):
                            rep.ob("refuted", "estimate-not-int:query2", case, repr(o)); return
                        conds.append(("estimate-not-monotone:query2", core.sym_and(between(o["pos2"], o["pos1"], target), between(o["pos1"], last, target))))
                    elif step == "stop":
                        rep.reach["after-stop"] += 1
                        conds.append(("stop-position-out-of-bounds", between(o["last"], last, target)))
                        conds.append(("moves-after-stop", core.sym_and(o["pos"] == o["last"], core.sym_not(o["traveling"]))))
                    elif step == "start":
                        rep.reach["after-start"] += 1
                        rebased = between(o["last"], last, target)          # the momentary estimate becomes the new last known position
                        want_dir = core.ite(o["last"] < p, 2, 1) if core.is_sym(o["last"]) else (2 if o["last"] < p else 1)
                        got_dir = {"DIRECTION_UP": 1, "DIRECTION_DOWN": 2, "STOPPED": 3}[o["direction"]]
                        stamp = clock.reads[-1] if clock.reads else None
                        conds.append(("command-not-applied:start", o["target"] == p and o["confirmed"] is False))
                        conds.append(("command-rebase:start", core.sym_and(rebased, sym_eq(got_dir, want_dir))))
                        conds.append(("command-timestamp:start", stamp is not None and fp_same(o["ts"], tick_float(stamp, DBITS))))
                    else:
                        rep.reach["after-report"] += 1
                        stamp = clock.reads[-1] if clock.reads else None
                        conds.append((f"report-not-rebased:{step}", o["last"] == p and stamp is not None and fp_same(o["ts"], tick_float(stamp, DBITS))))
                        if step == "setpos":
                            conds.append(("set_position-not-final", o["target"] == p and o["confirmed"] is True))
                        else:
                            conds.append(("report-changes-target", o["target"] == target and o["confirmed"] == (confirmed or p == target) and o["direction"] == direction))
                    st, mm = c.prove(core.sym_and(*[cnd for _, cnd in conds]))
                    if st == "proved":
                        for sig, _ in conds:
                            rep.ob("proved", sig, case, label)
                    else:
                        for sig, cond in conds:
                            st, mm = c.prove(cond)
                            rep.ob(st, sig, mcase(mm) if mm is not None else case, label)
                    rep.sample(dict(label=label, witness=case["reads"]), limit=1)
                _, st = core.explore(run, on_path=judge, stop=rep.enough, timeout=(400 if step == "query2" else 60) if job["tier"] == "quick" else 900, path_timeout=(170 if step == "query2" else 45) if job["tier"] == "quick" else 230)
                rep.add_stats(st)


def replay(case):
    import types
    import xknx.devices.travelcalculator as tcm
    tt, last, target, p, step = tuple(case["tt"]), case["last"], case["target"], case["p"], case["step"]
    reads = list(case["reads"])
    it = iter(reads)
    lastread = [case["ts"]]

    calls = [0]

    def now():
        calls[0] += 1
        try:
            lastread[0] = next(it)
        except StopIteration:
            if not reads:
                lastread[0] = case["ts"] + 5.0      # the model never saw the clock consulted: any later reading
        return lastread[0]
    saved = tcm.time
    tcm.time = types.SimpleNamespace(time=now)
    try:
        if step == "unknown":
            tc = build(tt, None, None, "STOPPED", False, 0.0)
            ok = tc.current_position() is None and tc.is_traveling() is False
            return (not ok), "unknown position handling"
        tc = build(tt, last, target, case["direction"], case["confirmed"], case["ts"])
        lo, hi = min(last, target), max(last, target)
        try:
            if step == "query":
                pos = tc.current_position()
                if not isinstance(pos, int) or not lo <= pos <= hi:
                    return True, f"current_position() = {pos!r} outside [{lo}, {hi}] (state {case})"
                trav = tc.is_traveling()
                if all(r == reads[0] for r in reads) and trav != (pos != target):
                    return True, f"is_traveling() = {trav} with estimate {pos} and target {target}"
            elif step == "query2":
                p1 = tc.current_position(); p2 = tc.current_position()
                a, b = min(p1, target), max(p1, target)
                if not (lo <= p1 <= hi and a <= p2 <= b):
                    return True, f"estimates {p1} then {p2} not monotone toward {target} from {last}"
            elif step == "stop":
                tc.stop()
                sp = tc._last_known_position
                pos = tc.current_position()
                if not lo <= sp <= hi or pos != sp or tc.is_traveling():
                    return True, f"stop at {sp} (bounds [{lo}, {hi}]), then estimate {pos}, traveling {tc.is_traveling()}"
            elif step == "start":
                tc.start_travel(p)
                l2 = tc._last_known_position
                want = "DIRECTION_DOWN" if p > l2 else "DIRECTION_UP"
                if tc._travel_to_position != p or tc._position_confirmed or not lo <= l2 <= hi or tc.travel_direction.name != want or calls[0] == 0 or tc._last_known_position_timestamp != lastread[0]:
                    return True, f"start_travel({p}) from {case}: target {tc._travel_to_position}, last {l2}, {tc.travel_direction.name}, timestamp {tc._last_known_position_timestamp} (command at {lastread[0]})"
            else:
                (tc.update_position if step == "report" else tc.set_position)(p)
                if tc._last_known_position != p or calls[0] == 0 or tc._last_known_position_timestamp != lastread[0]:
                    return True, f"{step}({p}) at {lastread[0]}: last known {tc._last_known_position} stamped {tc._last_known_position_timestamp}"
                if step == "setpos" and (tc._travel_to_position != p or not tc._position_confirmed):
                    return True, f"set_position({p}): target {tc._travel_to_position}, confirmed {tc._position_confirmed}"
                if step == "report" and (tc._travel_to_position != target or tc.travel_direction.name != case["direction"] or tc._position_confirmed != (case["confirmed"] or p == target)):
                    return True, f"update_position({p}) changed target/direction/confirmation: {tc._travel_to_position}, {tc.travel_direction.name}, {tc._position_confirmed}"
        except Exception as e:  # noqa: BLE001
            return True, f"{step} raised {e!r} in state {case}"
        return False, "ok"
    finally:
        tcm.time = saved
