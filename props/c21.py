"""C21 KNX/IP bodies round-trip exactly."""
from __future__ import annotations

ID = "C21"
BOUNDS = {
    "quick": "(a) decode-first: for every service type a symbolic datagram of the exact announced length L = 6..24 (list-structured bodies: up to 6 octets of DIB/SRP list) is parsed by KNXIPFrame.from_knx; every body it yields is serialised once (which must not raise and must be accepted by the parser again: normalisation of lenient parsing such as odd structure lengths), and the resulting body b (any field values the library itself puts on the wire) is re-framed with KNXIPFrame.init_from_body(b): len(to_knx()) == header.total_length == 6 + b.calculated_length(), and parsing that frame returns a structurally equal body and no rest; (b) construct-first for bodies whose parser could hide a value: TunnellingFeatureGet/Set/Info/Response with every feature type and return code, channel and sequence symbolic, data of 0..2 symbolic octets; SearchResponse/SearchResponseExtended/DescriptionResponse carrying a DIBDeviceInformation with symbolic medium/status/address/project fields and names from a concrete list (ASCII, ISO 8859-1 letters, 30 characters, empty) plus a supported-service-families DIB with symbolic versions; RoutingBusy/RoutingLostMessage with symbolic fields; SearchRequestExtended with SRPs from the public factories (programming mode, MAC with symbolic octets, service family with symbolic version, requested DIBs)",
    "thorough": "as quick with L up to 40 and 8 octets of DIB/SRP list",
}
OUTSIDE = "bodies longer than the bound; SearchRequestExtended bodies with SRP lists in the decode-first part (only the constructed SRPs are decided); device names, serial numbers and MAC strings in the decode-first part (opaque placeholder strings: those bodies are reported inconclusive there and covered by (b) with concrete names); secure wrapper/session payload content beyond its length"
ASSUMPTIONS = [
    "'equal body' = same class and recursively equal attributes (xknx defines __eq__ only for some of the nested structures; DIB objects are compared attribute by attribute)",
    "(a) ranges over bodies in the image of the parser; values the parser rejects but a caller could construct are covered only for the body classes listed in (b)",
]
EXPLANATION = "C21: real from_knx/to_knx/calculated_length/init_from_body of the KNX/IP body classes on symbolic datagrams and symbolic field values; z3 decides length agreement and attribute equality of the re-parsed body."
INTERESTING = ["roundtrip", "constructed"]
REQUIRED_REACH = ["roundtrip", "constructed"]

NAMES = ["", "Gateway", "Büro n°2", "X" * 30, "äöüßéÿ"]


def jobs(tier, seed):
    from xknx.knxip.knxip_enum import KNXIPServiceType
    top = 24 if tier == "quick" else 40
    LISTS = {"SEARCH_RESPONSE": 14, "SEARCH_RESPONSE_EXTENDED": 14, "SEARCH_REQUEST_EXTENDED": 14, "DESCRIPTION_RESPONSE": 6}
    room = 6 if tier == "quick" else 8
    out = []
    for st in KNXIPServiceType:
        t = top if st.name not in LISTS else LISTS[st.name] + room
        if st.name.startswith("TUNNELLING_FEATURE"):
            t = 16 if tier == "quick" else 24
        ls = list(range(6, t + 1))
        step = 6 if st.name not in LISTS else 2
        for i in range(0, len(ls), step):
            out.append(dict(name=f"decode-{st.name}-{ls[i]}", kind="decode", st=st.value, Ls=ls[i:i + step], tier=tier, cost=20))
    for k in ("TunnellingFeatureGet", "TunnellingFeatureSet", "TunnellingFeatureInfo", "TunnellingFeatureResponse"):
        for n in (0, 1, 2):
            out.append(dict(name=f"construct-{k}-{n}", kind="feature", cls=k, n=n, tier=tier, cost=15))
    for k in ("SearchResponse", "SearchResponseExtended", "DescriptionResponse"):
        for i in range(len(NAMES)):
            out.append(dict(name=f"construct-{k}-name{i}", kind="devinfo", cls=k, name_i=i, tier=tier, cost=10))
    out.append(dict(name="construct-routing", kind="routing", tier=tier, cost=5))
    out.append(dict(name="construct-srp", kind="srp", tier=tier, cost=10))
    return out


def deep_eq(core, a, b, conds, path="body"):
    """Structural equality; symbolic comparisons are appended to conds, concrete mismatches return a description."""
    import enum
    from symx.shims import SymStr
    if isinstance(a, SymStr) or isinstance(b, SymStr):
        kinds = {x.kind for x in (a, b) if isinstance(x, SymStr)}
        if kinds != {"ip"}:
            raise core.Unsupported("opaque text placeholder in a compared field")
        import socket
        sa = a.sym if isinstance(a, SymStr) else socket.inet_aton(a)
        sb = b.sym if isinstance(b, SymStr) else socket.inet_aton(b)
        return deep_eq(core, sa, sb, conds, path + "<ip>")
    if core.is_sym(a) or core.is_sym(b):
        from vx.util import sym_eq
        conds.append(sym_eq(a, b))
        return None
    if isinstance(a, enum.Enum) or isinstance(b, enum.Enum):
        return None if a is b else f"{path}: {a!r} != {b!r}"
    if type(a) is not type(b):
        if isinstance(a, (bytes, bytearray)) and isinstance(b, (bytes, bytearray)):
            pass
        elif hasattr(a, "__len__") and hasattr(b, "__len__") and not isinstance(a, str) and type(a).__name__ in ("SymBytes", "bytes", "bytearray") and type(b).__name__ in ("SymBytes", "bytes", "bytearray"):
            pass
        else:
            return f"{path}: type {type(a).__name__} != {type(b).__name__}"
    if type(a).__name__ in ("SymBytes", "bytes", "bytearray") or type(b).__name__ == "SymBytes":
        if len(a) != len(b):
            return f"{path}: length {len(a)} != {len(b)}"
        for i in range(len(a)):
            r = deep_eq(core, a[i], b[i], conds, f"{path}[{i}]")
            if r:
                return r
        return None
    if isinstance(a, (list, tuple)):
        if len(a) != len(b):
            return f"{path}: length {len(a)} != {len(b)}"
        for i, (x, y) in enumerate(zip(a, b)):
            r = deep_eq(core, x, y, conds, f"{path}[{i}]")
            if r:
                return r
        return None
    if isinstance(a, dict):
        if set(a) != set(b):
            return f"{path}: keys differ"
        for k in a:
            r = deep_eq(core, a[k], b[k], conds, f"{path}[{k!r}]")
            if r:
                return r
        return None
    if type(a).__module__.startswith("xknx."):
        names = list(getattr(a, "__dict__", {}).keys())
        for klass in type(a).__mro__:
            names += [s for s in getattr(klass, "__slots__", ()) if s not in names]
        for nme in names:
            if not hasattr(a, nme) and not hasattr(b, nme):
                continue
            r = deep_eq(core, getattr(a, nme, None), getattr(b, nme, None), conds, f"{path}.{nme}")
            if r:
                return r
        return None
    return None if a == b else f"{path}: {a!r} != {b!r}"


def roundtrip(core, body):
    """Frame a body, re-parse it; returns (problem-or-None, conds)."""
    from xknx.knxip import KNXIPFrame
    frame = KNXIPFrame.init_from_body(body)
    raw2 = frame.to_knx()
    conds = []
    cl = body.calculated_length()
    if len(raw2) != 6 + cl:
        return f"frame of {len(raw2)} octets for calculated_length {cl}", conds
    from vx.util import sym_eq
    conds.append(sym_eq(frame.header.total_length, len(raw2)))
    conds.append(sym_eq(raw2[4] * 256 + raw2[5], len(raw2)))
    f2, rest = KNXIPFrame.from_knx(raw2)
    if len(rest) != 0:
        return f"{len(rest)} octets left over", conds
    if type(f2.body) is not type(body):
        return f"parsed as {type(f2.body).__name__}", conds
    return deep_eq(core, f2.body, body, conds), conds


def run_job(job, rep):
    from symx import core, shims
    from vx.harness import trace_functions
    from vx.util import exc_site
    import xknx.knxip as kn
    import xknx.knxip.knxip as kk
    from xknx.exceptions import CouldNotParseKNXIP, IncompleteKNXIPFrame

    tmo = 300 if job["tier"] == "quick" else 1500

    def judge_rt(label, case_of):
        def judge(pr):
            c = pr.ctx
            if pr.kind in ("unsupported", "timeout"):
                rep.inconcl(f"{label}: {pr.kind} {pr.value}"); return
            if pr.kind == "ok" and pr.value is None:
                return
            m = c.current_model()
            case = case_of(c, m)
            if pr.kind == "raise":
                rep.ob("refuted", f"roundtrip-raises:{c.notes.get('cname', label)}:{exc_site(pr.value)}", case, repr(pr.value)); return
            if pr.value is None:
                return
            tag, problem, conds, cname = pr.value
            rep.reach[tag] += 1
            if problem:
                import re
                where = re.sub(r"\[[^\]]*\]", "", problem.split(":")[0]) + (":length" if "length" in problem else "")
                rep.ob("refuted", f"roundtrip-differs:{cname}:{where}", case, problem); return
            st, mm = c.prove(core.sym_and(*conds) if conds else True)
            rep.ob(st, f"roundtrip-differs:{cname}:values", case_of(c, mm) if mm is not None else case, "re-parsed body or announced length differs")
            rep.sample(dict(label=label, body=cname, witness=case), limit=1)
        return judge

    if job["kind"] == "decode":
        for L in job["Ls"]:
            def run(c):
                raw = c.fresh_bytes("b", L)
                c.notes["raw"] = raw
                c.add(raw[0] == 6)
                c.add(raw[1] == 0x10)
                c.add(raw[2] * 256 + raw[3] == job["st"])
                c.add(raw[4] * 256 + raw[5] == L)
                try:
                    frame, rest = kk.KNXIPFrame.from_knx(raw)
                except (CouldNotParseKNXIP, IncompleteKNXIPFrame):
                    return None
                c.notes["cname"] = type(frame.body).__name__
                from xknx.knxip.dib import DIBDeviceInformation
                if any(isinstance(d, DIBDeviceInformation) for d in getattr(frame.body, "dibs", [])):
                    raise core.Unsupported("device information strings are opaque placeholders (covered by the constructed bodies)")
                # the parser is lenient (odd structure lengths, padding): the body it returns is first normalised through the
                # library's own serialiser; the round trip is then demanded of that body, which the library itself emits
                if type(frame.body).__name__ == "SearchRequestExtended" and frame.body.srps:
                    # SRP lists: the parser accepts structures that are no search parameters (type 0, length octet below the SRP
                    # header, parameter types with surplus data); SRPs as the public factories build them are decided in the
                    # constructed cases instead
                    rep.reach["srp-list-skipped"] += 1
                    return None
                raw2 = kk.KNXIPFrame.init_from_body(frame.body).to_knx()
                try:
                    frame2, _ = kk.KNXIPFrame.from_knx(raw2)
                except (CouldNotParseKNXIP, IncompleteKNXIPFrame) as e:
                    return "roundtrip", f"own serialisation is rejected by the parser: {e!r}", [], type(frame.body).__name__
                f = lambda: roundtrip(core, frame2.body)
                problem, conds = trace_functions(f, rep) if len(rep.functions) < 150 else f()
                return "roundtrip", problem, conds, type(frame.body).__name__
            _, st = core.explore(run, on_path=judge_rt(job["name"], lambda c, m: dict(kind="decode", raw=c.notes["raw"].concrete(m).hex())), stop=rep.enough, timeout=tmo, path_timeout=25)
            rep.add_stats(st)
        return

    if job["kind"] == "feature":
        from xknx.knxip.knxip_enum import TunnellingFeatureType
        from xknx.knxip.tunnelling_feature import ReturnCode
        cls = getattr(kn, job["cls"])
        fts = list(TunnellingFeatureType)
        rcs = list(ReturnCode) if job["cls"] == "TunnellingFeatureResponse" else [None]
        if job["cls"] == "TunnellingFeatureGet" and job["n"] > 0:
            return

        def run(c):
            c.notes["cname"] = job["cls"]
            ft = fts[core.concretize(c.fresh_int("ft", 0, len(fts) - 1))]
            rc = rcs[core.concretize(c.fresh_int("rc", 0, len(rcs) - 1))]
            if job["n"] == 0 and job["cls"] != "TunnellingFeatureGet" and (rc is None or rc.name == "E_SUCCESS"):
                return None          # a Set/Info/successful Response without a value is not a body the specification allows
            ch = c.fresh_int("channel", 0, 255)
            sq = c.fresh_int("seq", 0, 255)
            data = c.fresh_bytes("d", job["n"])
            kw = dict(communication_channel_id=ch, sequence_counter=sq, feature_type=ft)
            if job["cls"] != "TunnellingFeatureGet":
                kw["data"] = data
            if rc is not None:
                kw["return_code"] = rc
            c.notes.update(ft=ft.name, rc=rc.name if rc else None, ch=ch, sq=sq, data=data)
            body = cls(**kw)
            f = lambda: roundtrip(core, body)
            problem, conds = trace_functions(f, rep) if not rep.functions else f()
            return "constructed", problem, conds, job["cls"]
        case_of = lambda c, m: dict(kind="feature", cls=job["cls"], feature_type=c.notes["ft"], return_code=c.notes["rc"], channel=core.model_val(m, c.notes["ch"]),
                                    seq=core.model_val(m, c.notes["sq"]), data=c.notes["data"].concrete(m).hex())
        _, st = core.explore(run, on_path=judge_rt(job["name"], case_of), stop=rep.enough, timeout=tmo, path_timeout=25)
        rep.add_stats(st)
        return

    if job["kind"] == "devinfo":
        from xknx.knxip import HPAI
        from xknx.knxip.dib import DIBDeviceInformation, DIBSuppSVCFamilies, DIBServiceFamily
        from xknx.knxip.knxip_enum import KNXMedium
        from xknx.telegram import IndividualAddress
        shims.DECODE_MODE["mode"] = "fork"
        name = NAMES[job["name_i"]]
        media = list(KNXMedium)

        def run(c):
            c.notes["cname"] = job["cls"]
            d = DIBDeviceInformation()
            d.knx_medium = media[core.concretize(c.fresh_int("medium", 0, len(media) - 1))]
            d.programming_mode = c.fresh_bool("prog")
            ia = c.fresh_int("ia", 0, 65535)
            d.individual_address = IndividualAddress(ia)
            d.installation_number = c.fresh_int("inst", 0, 15)
            d.project_number = c.fresh_int("proj", 0, 4095)
            d.serial_number = "13:37:13:37:13:37"
            d.multicast_address = "224.0.23.12"
            d.mac_address = "12:34:56:78:90:ab"
            d.name = name
            fam = DIBSuppSVCFamilies()
            v1 = c.fresh_int("v1", 0, 255)
            fam.families = [DIBSuppSVCFamilies.Family(DIBServiceFamily.CORE, v1), DIBSuppSVCFamilies.Family(DIBServiceFamily.TUNNELING, 2)]
            c.notes.update(medium=d.knx_medium.name, prog=d.programming_mode, ia=ia, inst=d.installation_number, proj=d.project_number, v1=v1)
            cls = getattr(kn, job["cls"])
            body = cls() if job["cls"] == "DescriptionResponse" else cls(control_endpoint=HPAI(ip_addr="192.168.1.2", port=3671))
            body.dibs = [d, fam]
            f = lambda: roundtrip(core, body)
            problem, conds = trace_functions(f, rep) if not rep.functions else f()
            return "constructed", problem, conds, job["cls"]
        mv = core.model_val
        case_of = lambda c, m: dict(kind="devinfo", cls=job["cls"], name_i=job["name_i"], medium=c.notes["medium"], prog=bool(mv(m, c.notes["prog"])), ia=mv(m, c.notes["ia"]),
                                    inst=mv(m, c.notes["inst"]), proj=mv(m, c.notes["proj"]), v1=mv(m, c.notes["v1"]))
        _, st = core.explore(run, on_path=judge_rt(job["name"], case_of), stop=rep.enough, timeout=tmo, path_timeout=25)
        rep.add_stats(st)
        shims.DECODE_MODE["mode"] = "placeholder"
        return

    if job["kind"] == "srp":
        from xknx.knxip import HPAI
        from xknx.knxip.dib import DIBServiceFamily, DIBTypeCode
        from xknx.knxip.srp import SRP
        fams = list(DIBServiceFamily)
        for variant in ("prog", "mac", "service", "dibs", "all"):
            def run(c):
                c.notes["cname"] = "SearchRequestExtended"
                mac = c.fresh_bytes("mac", 6)
                ver = c.fresh_int("ver", 0, 255)
                fam = fams[core.concretize(c.fresh_int("fam", 0, len(fams) - 1))]
                c.notes.update(mac=mac, ver=ver, fam=fam.name)
                srps = dict(prog=[SRP.with_programming_mode()], mac=[SRP.with_mac_address(mac)], service=[SRP.with_service(fam, ver)],
                            dibs=[SRP.request_device_description([DIBTypeCode.DEVICE_INFO, DIBTypeCode.SUPP_SVC_FAMILIES])])
                srps["all"] = srps["prog"] + srps["mac"] + srps["service"] + srps["dibs"]
                body = kn.SearchRequestExtended(discovery_endpoint=HPAI(ip_addr="192.168.1.2", port=3671), srps=srps[variant])
                problem, conds = roundtrip(core, body)
                return "constructed", problem, conds, "SearchRequestExtended"
            case_of = lambda c, m: dict(kind="srp", variant=variant, mac=c.notes["mac"].concrete(m).hex(), ver=core.model_val(m, c.notes["ver"]), fam=c.notes["fam"])
            _, st = core.explore(run, on_path=judge_rt("srp", case_of), stop=rep.enough, timeout=tmo, path_timeout=25)
            rep.add_stats(st)
        return

    if job["kind"] == "routing":
        for which in ("RoutingBusy", "RoutingLostMessage"):
            def run(c):
                c.notes["cname"] = which
                a = c.fresh_int("a", 0, 255)
                b = c.fresh_int("b", 0, 65535)
                x = c.fresh_int("x", 0, 65535)
                c.notes.update(a=a, b=b, x=x)
                body = kn.RoutingBusy(device_state=a, wait_time=b, control_field=x) if which == "RoutingBusy" else kn.RoutingLostMessage(device_state=a, lost_messages=b)
                problem, conds = roundtrip(core, body)
                return "constructed", problem, conds, which
            case_of = lambda c, m: dict(kind="routing", cls=which, a=core.model_val(m, c.notes["a"]), b=core.model_val(m, c.notes["b"]), x=core.model_val(m, c.notes["x"]))
            _, st = core.explore(run, on_path=judge_rt("routing", case_of), stop=rep.enough, timeout=tmo, path_timeout=25)
            rep.add_stats(st)


def _concrete_deep_eq(a, b):
    class _Core:
        @staticmethod
        def is_sym(x):
            return False
    return deep_eq(_Core, a, b, [])


def _rt_concrete(body):
    from xknx.knxip import KNXIPFrame
    frame = KNXIPFrame.init_from_body(body)
    raw2 = frame.to_knx()
    if len(raw2) != 6 + body.calculated_length() or frame.header.total_length != len(raw2) or raw2[4] * 256 + raw2[5] != len(raw2):
        return f"{type(body).__name__}: frame of {len(raw2)} octets, calculated_length {body.calculated_length()}, header {frame.header.total_length}"
    f2, rest = KNXIPFrame.from_knx(raw2)
    if rest:
        return f"{type(body).__name__}: {len(rest)} octets left over"
    if type(f2.body) is not type(body):
        return f"{type(body).__name__}: parsed as {type(f2.body).__name__}"
    d = _concrete_deep_eq(f2.body, body)
    return f"{type(body).__name__} ({raw2.hex()}): {d}" if d else None


def replay(case):
    import xknx.knxip as kn
    from xknx.exceptions import CouldNotParseKNXIP, IncompleteKNXIPFrame
    from xknx.knxip import KNXIPFrame
    try:
        if case["kind"] == "decode":
            try:
                frame, _ = KNXIPFrame.from_knx(bytes.fromhex(case["raw"]))
            except (CouldNotParseKNXIP, IncompleteKNXIPFrame):
                return False, "rejected"
            raw2 = KNXIPFrame.init_from_body(frame.body).to_knx()
            try:
                body = KNXIPFrame.from_knx(raw2)[0].body
            except (CouldNotParseKNXIP, IncompleteKNXIPFrame) as e:
                return True, f"{type(frame.body).__name__} parsed from {case['raw']} serialises to {raw2.hex()}, which the parser rejects: {e!r}"
        elif case["kind"] == "feature":
            from xknx.knxip.knxip_enum import TunnellingFeatureType
            from xknx.knxip.tunnelling_feature import ReturnCode
            kw = dict(communication_channel_id=case["channel"], sequence_counter=case["seq"], feature_type=TunnellingFeatureType[case["feature_type"]])
            if case["cls"] != "TunnellingFeatureGet":
                kw["data"] = bytes.fromhex(case["data"])
            if case["return_code"]:
                kw["return_code"] = ReturnCode[case["return_code"]]
            body = getattr(kn, case["cls"])(**kw)
        elif case["kind"] == "devinfo":
            from xknx.knxip import HPAI
            from xknx.knxip.dib import DIBDeviceInformation, DIBSuppSVCFamilies, DIBServiceFamily
            from xknx.knxip.knxip_enum import KNXMedium
            from xknx.telegram import IndividualAddress
            d = DIBDeviceInformation()
            d.knx_medium = KNXMedium[case["medium"]]
            d.programming_mode = case["prog"]
            d.individual_address = IndividualAddress(case["ia"])
            d.installation_number, d.project_number = case["inst"], case["proj"]
            d.serial_number, d.multicast_address, d.mac_address = "13:37:13:37:13:37", "224.0.23.12", "12:34:56:78:90:ab"
            d.name = NAMES[case["name_i"]]
            fam = DIBSuppSVCFamilies()
            fam.families = [DIBSuppSVCFamilies.Family(DIBServiceFamily.CORE, case["v1"]), DIBSuppSVCFamilies.Family(DIBServiceFamily.TUNNELING, 2)]
            cls = getattr(kn, case["cls"])
            body = cls() if case["cls"] == "DescriptionResponse" else cls(control_endpoint=HPAI(ip_addr="192.168.1.2", port=3671))
            body.dibs = [d, fam]
        elif case["kind"] == "srp":
            from xknx.knxip import HPAI
            from xknx.knxip.dib import DIBServiceFamily, DIBTypeCode
            from xknx.knxip.srp import SRP
            srps = dict(prog=[SRP.with_programming_mode()], mac=[SRP.with_mac_address(bytes.fromhex(case["mac"]))], service=[SRP.with_service(DIBServiceFamily[case["fam"]], case["ver"])],
                        dibs=[SRP.request_device_description([DIBTypeCode.DEVICE_INFO, DIBTypeCode.SUPP_SVC_FAMILIES])])
            srps["all"] = srps["prog"] + srps["mac"] + srps["service"] + srps["dibs"]
            body = kn.SearchRequestExtended(discovery_endpoint=HPAI(ip_addr="192.168.1.2", port=3671), srps=srps[case["variant"]])
        else:
            body = kn.RoutingBusy(device_state=case["a"], wait_time=case["b"], control_field=case["x"]) if case["cls"] == "RoutingBusy" else kn.RoutingLostMessage(device_state=case["a"], lost_messages=case["b"])
        r = _rt_concrete(body)
    except Exception as e:  # noqa: BLE001
        return True, f"{case}: round trip raised {e!r}"
    return (r is not None), r or "ok"
