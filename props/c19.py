"""C19 Data Secure output conforms to the KNX CCM construction."""
from __future__ import annotations

ID = "C19"
BOUNDS = {
    "quick": "key (128 bit), sequence number (48 bit), source/destination address octets, SCF tool-access and system-broadcast bits and every APDU octet symbolic; APDU length n = 0..20 and 29, 30, 45; both algorithms; address type {group, individual} x frame format {STANDARD, LTE_HEE} x TPCI {TDataGroup, TDataBroadcast, TDataTagGroup, TDataIndividual} fully for n <= 2 and two corner combinations for longer APDUs (these fields only enter block 0)",
    "thorough": "as quick with every n = 0..48 and 61..64, 77 (longer APDUs exceeded the solver budget in a trial run: 384 of 1048 cells inconclusive after 39 minutes)",
}
OUTSIDE = "the strength of AES (modelled as an uninterpreted permutation E(key, block)); TDataConnected/control TPCIs (Data Secure point-to-point is not implemented by xknx)"
ASSUMPTIONS = [
    "AES-128 is an uninterpreted function E; xknx's CBC/CTR use goes through a Python re-implementation of the two modes (checked against the cryptography library on concrete vectors at every run); replays use real AES on both sides",
    "reference: /verif/spec/ccm_reference.py written from the Data Secure specification (B0/Ctr0 layout, 2-octet length prefix, contiguous zero padding, 4-octet MAC, MAC encrypted with Ctr0 only for authenticated encryption)",
]
EXPLANATION = ("C19: SecureData.init_from_plain_apdu/to_knx, block_0, counter_0, calculate_message_authentication_code_cbc, encrypt_data_ctr, byte_pad run "
               "symbolically over E; z3 (QF_UFBV) proves every output octet equal to the independent reference.")
INTERESTING = ["conformant"]
REQUIRED_REACH = ["conformant"]
TPCIS = ["TDataGroup", "TDataBroadcast", "TDataTagGroup", "TDataIndividual"]


def jobs(tier, seed):
    ns = list(range(0, 21)) + [29, 30, 45] if tier == "quick" else list(range(0, 49)) + [61, 62, 63, 64, 77]
    out = []
    for n in ns:
        out.append(dict(name=f"n{n}", n=n, cost=n + 5))
    return out


def reference(key, seq6, addr4, at_group, eff, tpci_octet, scf_octet, apdu, encrypt, enc=None, bv_add=None):
    from spec import ccm_reference as ref
    return ref.secure(enc, bv_add, key, seq6, addr4[:2], addr4[2:], at_group, eff, tpci_octet, scf_octet, apdu, encrypt)


def run_job(job, rep):
    import z3
    from symx import core, crypto
    from vx.harness import trace_functions
    from vx.util import exc_site
    crypto.install()
    crypto.selfcheck()
    import xknx.secure.data_secure_asdu as asdu
    import xknx.cemi.flags as fl
    import xknx.telegram.tpci as tp

    n = job["n"]

    def bv_add(ctr, k):
        if all(isinstance(e, int) for e in ctr):
            return list(((int.from_bytes(bytes(ctr), "big") + k) % (1 << 128)).to_bytes(16, "big"))
        return crypto.from_bv(crypto.to_bv(ctr) + k)

    combos = [(at, eff, tname) for at in fl.CEMIAddressType for eff in fl.CEMIFrameFormat for tname in TPCIS]
    if n > 2:
        # address type / frame format / TPCI only enter block 0, independently of the APDU length: two corner combinations
        combos = [(fl.CEMIAddressType.GROUP, fl.CEMIFrameFormat.STANDARD, "TDataGroup"), (fl.CEMIAddressType.INDIVIDUAL, fl.CEMIFrameFormat.LTE_HEE, "TDataTagGroup")]
    for alg in asdu.SecurityAlgorithmIdentifier:
        for (at, eff, tname) in combos:
            if True:
                if True:
                    def run(c):
                        key = c.fresh_bytes("k", 16)
                        apdu = c.fresh_bytes("a", n)
                        addr = c.fresh_bytes("ad", 4)
                        seq = c.fresh_int("seq", 0, (1 << 48) - 1)
                        ta, sb = c.fresh_bool("tool"), c.fresh_bool("sbc")
                        scf = asdu.SecurityControlField(tool_access=ta, algorithm=alg, system_broadcast=sb, service=asdu.SecurityALService.S_A_DATA)
                        t = getattr(tp, tname)()
                        c.notes.update(key=key, apdu=apdu, addr=addr, seq=seq, ta=ta, sb=sb)
                        f = lambda: asdu.SecureData.init_from_plain_apdu(key=key, apdu=apdu, scf=scf, sequence_number=seq, address_fields_raw=addr,
                                                                         address_type=at, frame_format=eff, tpci=t).to_knx()
                        wire = trace_functions(f, rep) if not rep.functions else f()
                        seq6 = list(core.int_to_bytes(seq, 6, "big"))
                        scf_octet = core.ite(ta, 0x80, 0) | (int(alg) << 4) | core.ite(sb, 0x08, 0)
                        sec, mac = reference(list(key), seq6, list(addr), at == fl.CEMIAddressType.GROUP, int(eff), t.to_knx(), scf_octet, list(apdu),
                                             alg == asdu.SecurityAlgorithmIdentifier.CCM_ENCRYPTION, enc=crypto.enc_block, bv_add=bv_add)
                        return wire, seq6 + sec + mac

                    def judge(pr):
                        c = pr.ctx
                        if pr.kind in ("unsupported", "timeout"):
                            rep.inconcl(f"{job['name']}: {pr.value}"); return
                        m = c.current_model()
                        n_ = c.notes

                        def mcase(mm):
                            return dict(alg=alg.name, at=at.name, eff=eff.name, tpci=tname, key=core.model_val(mm, n_["key"]).hex(), apdu=core.model_val(mm, n_["apdu"]).hex(),
                                        addr=core.model_val(mm, n_["addr"]).hex(), seq=core.model_val(mm, n_["seq"]), tool=core.model_val(mm, n_["ta"]), sbc=core.model_val(mm, n_["sb"]))
                        case = mcase(m)
                        sig = f"{alg.name}:{at.name}:{eff.name}:{tname}"
                        if pr.kind == "raise":
                            rep.ob("refuted", f"secure-raises:{sig}:{exc_site(pr.value)}", case, repr(pr.value)); return
                        wire, exp = pr.value
                        if len(wire) != len(exp):
                            rep.ob("refuted", f"length:{sig}", case, f"{len(wire)} != {len(exp)}"); return
                        diffs = [core.zint(a) != core.zint(b) for a, b in zip(wire, exp) if not (isinstance(a, int) and isinstance(b, int) and a == b)]
                        st, mm = c.sat(z3.Or(*diffs)) if diffs else ("unsat", None)
                        if st == "sat":
                            rep.ob("refuted", f"differs-from-reference:{sig}", mcase(mm), "secured APDU differs from the reference CCM output")
                        else:
                            rep.ob("proved" if st == "unsat" else "unknown", f"differs-from-reference:{sig}", case)
                            rep.reach["conformant"] += 1
                        rep.sample(dict(n=n, variant=sig, witness=case), limit=1)

                    _, st = core.explore(run, on_path=judge, stop=rep.enough, timeout=600)
                    rep.add_stats(st)


def _real_enc(key, block):
    from cryptography.hazmat.primitives.ciphers import Cipher, algorithms, modes
    e = Cipher(algorithms.AES(bytes(key)), modes.ECB()).encryptor()  # noqa: S305
    return list(e.update(bytes(block)) + e.finalize())


def replay(case):
    import xknx.secure.data_secure_asdu as asdu
    import xknx.cemi.flags as fl
    import xknx.telegram.tpci as tp
    alg = asdu.SecurityAlgorithmIdentifier[case["alg"]]
    at, eff = fl.CEMIAddressType[case["at"]], fl.CEMIFrameFormat[case["eff"]]
    key, apdu, addr = bytes.fromhex(case["key"]), bytes.fromhex(case["apdu"]), bytes.fromhex(case["addr"])
    scf = asdu.SecurityControlField(tool_access=case["tool"], algorithm=alg, system_broadcast=case["sbc"], service=asdu.SecurityALService.S_A_DATA)
    t = getattr(tp, case["tpci"])()
    try:
        wire = asdu.SecureData.init_from_plain_apdu(key=key, apdu=apdu, scf=scf, sequence_number=case["seq"], address_fields_raw=addr,
                                                    address_type=at, frame_format=eff, tpci=t).to_knx()
    except Exception as e:  # noqa: BLE001
        return True, f"init_from_plain_apdu raised {e!r}"
    seq6 = list(case["seq"].to_bytes(6, "big"))
    scf_octet = (0x80 if case["tool"] else 0) | (int(alg) << 4) | (0x08 if case["sbc"] else 0)
    bv_add = lambda ctr, k: list(((int.from_bytes(bytes(ctr), "big") + k) % (1 << 128)).to_bytes(16, "big"))
    sec, mac = reference(list(key), seq6, list(addr), at == fl.CEMIAddressType.GROUP, int(eff), t.to_knx(), scf_octet, list(apdu),
                         alg == asdu.SecurityAlgorithmIdentifier.CCM_ENCRYPTION, enc=_real_enc, bv_add=bv_add)
    exp = bytes(seq6 + sec + mac)
    if bytes(wire) != exp:
        return True, f"xknx {bytes(wire).hex()} != reference {exp.hex()}"
    return False, "ok"
