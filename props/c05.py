"""C05 Decoded application PDUs re-encode to the same octets (reserved bits aside)."""
from __future__ import annotations

ID = "C05"
BOUNDS = {
    "quick": "APDU length L = 2..40, every octet symbolic; all accepting paths of APCI.from_knx",
    "thorough": "APDU length L = 2..120, every octet symbolic",
}
OUTSIDE = "APDUs longer than the bound; bits listed in /verif/spec/apci_reserved.py (reserved per KNX AL 03.03.07) and the six TPCI bits of octet 0"
ASSUMPTIONS = [
    "reserved-bit table /verif/spec/apci_reserved.py written from the specification; a bit is protected unless listed there",
    "re-decoding is done on bytes(encoding) (from_knx is specified for bytes, to_knx returns a bytearray)",
    "SecureAPDU payloads (SecurityControlField/SecureData define no __eq__): equality judged structurally field by field",
]
EXPLANATION = ("C05: for every accepting path of APCI.from_knx over a symbolic APDU: obj.to_knx() (unless it refuses with "
               "ConversionError), length, calculated_length(), per-bit equality outside the reserved mask, and "
               "APCI.from_knx(bytes(enc)) == obj are decided by z3.")
INTERESTING = ["reencoded", "refused"]
REQUIRED_REACH = ["reencoded"]


def jobs(tier, seed):
    top = 40 if tier == "quick" else 120
    return [dict(name=f"L{L}", L=L, cost=L + 1) for L in range(2, top + 1)]


def run_job(job, rep):
    import z3
    from symx import core, shims
    from vx.harness import trace_functions
    from vx.util import exc_site, sym_eq
    from spec.apci_reserved import reserved_mask
    import xknx.telegram.apci as apci
    from xknx.exceptions import ConversionError

    L = job["L"]
    first = [True]

    def body(raw):
        try:
            obj = apci.APCI.from_knx(raw)
        except ConversionError:
            return None
        try:
            enc = obj.to_knx()
        except ConversionError as e:
            return ("refused", obj, e)
        return ("enc", obj, enc, obj.calculated_length())

    def run(c):
        raw = c.fresh_bytes("b", L)
        c.notes["raw"] = raw
        if first[0]:
            first[0] = False
            return trace_functions(lambda: body(raw), rep)
        return body(raw)

    def judge(pr):
        c = pr.ctx
        raw = c.notes["raw"]
        if pr.kind in ("unsupported", "timeout"):
            rep.inconcl(f"L={L}: {pr.kind} {pr.value}"); return
        m = c.current_model()
        case = dict(raw=raw.concrete(m).hex())
        if pr.kind == "raise":
            # decoding raising undeclared errors is C04's subject; encoding of a decoded object raising is ours
            rep.ob("refuted", "reencode-raises:" + exc_site(pr.value), case, repr(pr.value)); return
        if pr.value is None:
            return
        if pr.value[0] == "refused":
            rep.reach["refused"] += 1
            rep.reach["refused:" + type(pr.value[1]).__name__] += 1
            return
        _, obj, enc, clen = pr.value
        name = type(obj).__name__
        rep.reach["reencoded"] += 1
        rep.reach["svc:" + name] += 1

        def mcase(mm):
            return dict(raw=raw.concrete(mm).hex()) if mm is not None else case
        if len(enc) != L:
            rep.ob("refuted", f"length:{name}", case, f"re-encoded length {len(enc)} != received {L}"); return
        st, mm = c.prove(clen == L - 1) if core.is_sym(clen) else (("proved", None) if clen == L - 1 else ("refuted", m))
        rep.ob(st, f"calculated_length:{name}", mcase(mm), f"calculated_length()={clen if not core.is_sym(clen) else 'sym'} for APDU of {L} octets")
        mask = reserved_mask(name, L)
        bad = []
        for i in range(L):
            prot = 0xFF & ~mask.get(i, 0)
            if i == 0:
                prot &= 0x03
            if not prot:
                continue
            a, b = enc[i], raw[i]
            if isinstance(a, int) and isinstance(b, int):
                if (a ^ b) & prot:
                    bad.append(z3.BoolVal(True))
                continue
            bad.append(((core.zint(a) ^ core.zint(b)) & prot) != 0)
        if bad:
            stt, mm = c.sat(z3.Or(*bad))
            if stt == "sat":
                r = raw.concrete(mm)
                e2 = bytes(core.model_int(mm, x) for x in enc)
                diff = [(i, f"{r[i] ^ e2[i]:#04x}") for i in range(L) if (r[i] ^ e2[i]) & (0xFF & ~mask.get(i, 0)) & (0x03 if i == 0 else 0xFF)]
                rep.ob("refuted", f"bits:{name}:{diff[0][0] if diff else '?'}", dict(raw=r.hex()), f"re-encoding differs on protected bits {diff}")
            else:
                rep.ob("proved" if stt == "unsat" else "unknown", f"bits:{name}", case)
        else:
            rep.obligations += 1; rep.discharged += 1
        try:
            obj2 = apci.APCI.from_knx(shims.bytes_shim(enc))
        except Exception as e:  # noqa: BLE001
            rep.ob("refuted", f"redecode-raises:{name}", case, repr(e)); return
        st, mm = c.prove(sym_eq(obj2, obj))
        rep.ob(st, f"redecode-differs:{name}", mcase(mm), "decode(encode(decode(raw))) != decode(raw)")
        rep.sample(dict(L=L, service=name, witness=case["raw"], reserved_mask={str(k): hex(v) for k, v in mask.items()}), limit=2)

    _, st = core.explore(run, on_path=judge, stop=rep.enough, timeout=2400)
    rep.add_stats(st)


def _struct_eq(a, b):
    import dataclasses
    if dataclasses.is_dataclass(a) and type(a) is type(b):
        return all(_struct_eq(getattr(a, f.name), getattr(b, f.name)) for f in dataclasses.fields(a))
    if type(a) is type(b) and type(a).__module__.startswith("xknx.secure") and hasattr(a, "__dict__"):
        return all(_struct_eq(v, getattr(b, k)) for k, v in vars(a).items())
    return a == b


def replay(case):
    from spec.apci_reserved import reserved_mask
    from xknx.telegram.apci import APCI
    from xknx.exceptions import ConversionError
    raw = bytes.fromhex(case["raw"])
    try:
        obj = APCI.from_knx(raw)
    except ConversionError:
        return False, "not accepted"
    try:
        enc = obj.to_knx()
    except ConversionError:
        return False, "encoder refuses"
    except Exception as e:  # noqa: BLE001
        return True, f"to_knx of decoded {obj} raised {e!r}"
    L = len(raw)
    name = type(obj).__name__
    if len(enc) != L:
        return True, f"{name}: length {len(enc)} != {L}"
    if obj.calculated_length() != L - 1:
        return True, f"{name}: calculated_length {obj.calculated_length()} != {L - 1}"
    mask = reserved_mask(name, L)
    for i in range(L):
        prot = 0xFF & ~mask.get(i, 0) & (0x03 if i == 0 else 0xFF)
        if (enc[i] ^ raw[i]) & prot:
            return True, f"{name}: octet {i} {raw[i]:#04x} -> {enc[i]:#04x} (protected {prot:#04x}); raw={raw.hex()} enc={bytes(enc).hex()}"
    try:
        obj2 = APCI.from_knx(bytes(enc))
    except Exception as e:  # noqa: BLE001
        return True, f"{name}: re-decode raised {e!r}"
    if not _struct_eq(obj2, obj):
        return True, f"{name}: {obj2} != {obj}"
    return False, "ok"
