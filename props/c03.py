"""C03 Transport-layer control octets decode only to PDUs that re-encode to them."""
from __future__ import annotations

ID = "C03"
BOUNDS = {
    "quick": "complete: TPCI octet 0..255 symbolic x dst_is_group x dst_is_zero symbolic; every TPCI subclass with symbolic sequence number 0..15 against each destination kind it is used with, both as TPCI.to_knx() -> TPCI.resolve and through the cEMI L_Data frame the library builds (CEMILData.to_knx -> CEMIFrame.from_knx)",
    "thorough": "same as quick (the space is finite and fully covered)",
}
OUTSIDE = "sequence numbers outside 0..15 passed to constructors (not constructible from the wire)"
ASSUMPTIONS = [
    "transport bits of a data PDU are the top six bits (mask 0xFC; the low two bits belong to the APCI), of a control PDU all eight",
    "destination kinds per PDU class: TDataGroup=group/non-zero, TDataBroadcast=group/zero, TDataTagGroup=group, all others=individual",
]
EXPLANATION = "C03: TPCI.resolve and every to_knx are executed on a symbolic octet and symbolic destination-kind flags."
INTERESTING = ["decoded", "rejected", "built"]
REQUIRED_REACH = ["decoded", "rejected", "built"]

KINDS = {"TDataGroup": [(True, False)], "TDataBroadcast": [(True, True)], "TDataTagGroup": [(True, False), (True, True)],
         "TDataIndividual": [(False, False), (False, True)], "TDataConnected": [(False, False), (False, True)],
         "TConnect": [(False, False), (False, True)], "TDisconnect": [(False, False), (False, True)],
         "TAck": [(False, False), (False, True)], "TNak": [(False, False), (False, True)]}


def jobs(tier, seed):
    return [dict(name="decode"), dict(name="build")]


def run_job(job, rep):
    from symx import core
    from vx.harness import trace_functions
    from vx.util import exc_site
    import xknx.telegram.tpci as tpci
    from xknx.exceptions import ConversionError

    if job["name"] == "decode":
        first = [True]

        def run(c):
            o = c.fresh_int("octet", 0, 255)
            g = c.fresh_bool("group")
            z = c.fresh_bool("zero")
            c.notes.update(o=o, g=g, z=z)
            f = lambda: tpci.TPCI.resolve(o, g, z)
            if first[0]:
                first[0] = False
                t = trace_functions(f, rep)
            else:
                t = f()
            return t, t.to_knx()

        def judge(pr):
            c = pr.ctx
            n = c.notes
            m = c.current_model()
            case = dict(kind="decode", octet=core.model_val(m, n["o"]), group=core.model_val(m, n["g"]), zero=core.model_val(m, n["z"]))
            if pr.kind == "raise":
                if isinstance(pr.value, ConversionError):
                    rep.reach["rejected"] += 1
                    rep.witness(case, "raise:ConversionError", limit=4)
                    rep.obligations += 1; rep.discharged += 1
                else:
                    rep.ob("refuted", "undeclared:" + exc_site(pr.value), case, repr(pr.value))
                return
            if pr.kind != "ok":
                rep.inconcl(pr.value); return
            t, enc = pr.value
            rep.reach["decoded"] += 1
            mask = 0xFF if t.control else 0xFC
            st, mm = c.prove((enc & mask) == (n["o"] & mask))
            cs = case if mm is None else dict(kind="decode", octet=core.model_val(mm, n["o"]), group=core.model_val(mm, n["g"]), zero=core.model_val(mm, n["z"]))
            rep.ob(st, f"reencode-differs:{type(t).__name__}", cs, f"{type(t).__name__} re-encodes differently")
            rep.witness(case, "ok:" + type(t).__name__, limit=12)
            rep.sample(dict(case=case, pdu=type(t).__name__))

        _, st = core.explore(run, on_path=judge, stop=rep.enough)
        rep.add_stats(st)
        return

    classes = []

    def walk(k):
        for s in k.__subclasses__():
            classes.append(s); walk(s)
    walk(tpci.TPCI)
    for cls in classes:
        kinds = KINDS.get(cls.__name__)
        if kinds is None:
            rep.inconcl(f"unknown TPCI subclass {cls.__name__}: destination kind not specified in the harness"); continue
        takes_seq = "sequence_number" in getattr(cls, "__slots__", ())
        for (g, z) in kinds:
            def run(c):
                seq = c.fresh_int("seq", 0, 15) if takes_seq else None
                t = cls(seq) if takes_seq else cls()
                c.notes.update(seq=seq)
                enc = t.to_knx()
                t2 = tpci.TPCI.resolve(enc, g, z)
                # the octet as the library actually puts it on the wire: through the cEMI L_Data frame builder and parser
                from xknx.cemi import CEMIFrame, CEMILData, CEMIMessageCode
                from xknx.telegram import GroupAddress, IndividualAddress, Telegram
                from xknx.telegram import apci
                dst = (GroupAddress(0) if z else GroupAddress(0x0901)) if g else (IndividualAddress(0) if z else IndividualAddress(0x1105))
                payload = None if isinstance(t, tpci.TPCI) and t.control else (apci.GroupValueRead() if g else apci.DeviceDescriptorRead(descriptor=0))
                tg = Telegram(destination_address=dst, tpci=t, payload=payload, source_address=IndividualAddress(0x1101))
                raw = CEMIFrame(code=CEMIMessageCode.L_DATA_IND, data=CEMILData.init_from_telegram(tg)).to_knx()
                t3 = CEMIFrame.from_knx(raw).data.tpci
                c.notes["via_frame"] = t3
                return t, enc, t2

            def judge(pr):
                c = pr.ctx
                m = c.current_model()
                case = dict(kind="build", cls=cls.__name__, seq=core.model_val(m, c.notes["seq"]), group=g, zero=z)
                if pr.kind != "ok":
                    if pr.kind == "raise":
                        rep.ob("refuted", f"built-pdu-not-decodable:{cls.__name__}:{exc_site(pr.value)}", case, repr(pr.value))
                    else:
                        rep.inconcl(pr.value)
                    return
                t, enc, t2 = pr.value
                rep.reach["built"] += 1
                eq = core.sym_and(type(t2) is type(t), t2 == t)
                st, mm = c.prove(eq)
                if mm is not None:
                    case["seq"] = core.model_val(mm, c.notes["seq"])
                rep.ob(st, f"built-roundtrip:{cls.__name__}", case, f"decoded {type(t2).__name__}")
                t3 = c.notes["via_frame"]
                st3, mm3 = c.prove(core.sym_and(type(t3) is type(t), t3 == t))
                case3 = dict(case, via_frame=True)
                if mm3 is not None:
                    case3["seq"] = core.model_val(mm3, c.notes["seq"])
                rep.ob(st3, f"built-roundtrip-via-cemi-frame:{cls.__name__}", case3, f"frame decoded to {t3!r}")
                rep.sample(dict(case=case, decoded=type(t2).__name__), limit=6)

            _, st = core.explore(run, on_path=judge, stop=rep.enough)
            rep.add_stats(st)


def concrete(case):
    from xknx.telegram.tpci import TPCI
    try:
        return "ok:" + type(TPCI.resolve(case["octet"], case["group"], case["zero"])).__name__
    except Exception as e:  # noqa: BLE001
        return "raise:" + type(e).__name__


def replay(case):
    from xknx.telegram import tpci
    from xknx.exceptions import ConversionError
    if case["kind"] == "decode":
        try:
            t = tpci.TPCI.resolve(case["octet"], case["group"], case["zero"])
        except ConversionError:
            return False, "rejected"
        except Exception as e:  # noqa: BLE001
            return True, f"undeclared {e!r}"
        mask = 0xFF if t.control else 0xFC
        enc = t.to_knx()
        if enc & mask != case["octet"] & mask:
            return True, f"octet {case['octet']:#04x} decoded to {t!r} which encodes to {enc:#04x}"
        return False, "ok"
    cls = getattr(tpci, case["cls"])
    t = cls(case["seq"]) if case["seq"] is not None else cls()
    try:
        t2 = tpci.TPCI.resolve(t.to_knx(), case["group"], case["zero"])
    except Exception as e:  # noqa: BLE001
        return True, f"{t!r} encodes to {t.to_knx():#04x} which is rejected: {e!r}"
    if type(t2) is not type(t) or t2 != t:
        return True, f"{t!r} -> {t.to_knx():#04x} -> {t2!r}"
    if case.get("via_frame"):
        from xknx.cemi import CEMIFrame, CEMILData, CEMIMessageCode
        from xknx.telegram import GroupAddress, IndividualAddress, Telegram, apci
        g, z = case["group"], case["zero"]
        dst = (GroupAddress(0) if z else GroupAddress(0x0901)) if g else (IndividualAddress(0) if z else IndividualAddress(0x1105))
        payload = None if t.control else (apci.GroupValueRead() if g else apci.DeviceDescriptorRead(descriptor=0))
        tg = Telegram(destination_address=dst, tpci=t, payload=payload, source_address=IndividualAddress(0x1101))
        try:
            raw = CEMIFrame(code=CEMIMessageCode.L_DATA_IND, data=CEMILData.init_from_telegram(tg)).to_knx()
            t3 = CEMIFrame.from_knx(raw).data.tpci
        except Exception as e:  # noqa: BLE001
            return True, f"{t!r} in an L_Data frame: {e!r}"
        if type(t3) is not type(t) or t3 != t:
            return True, f"{t!r} built into frame {raw.hex()} decodes to {t3!r}"
    return False, "ok"
