"""C20 KNX/IP frame parsing terminates and fails only with declared errors."""
from __future__ import annotations

ID = "C20"
BOUNDS = {
    "quick": "datagram length L: (a) L = 0..9 fully symbolic (any header); (b) for each of the service types of KNXIPServiceType with a valid 6-octet header: total_length == L for L = 6..40 (list-structured bodies SEARCH_RESPONSE[_EXTENDED]/SEARCH_REQUEST_EXTENDED/DESCRIPTION_RESPONSE: up to 6 octets of DIB/SRP list, plus bodies starting with a 54-octet device-information DIB followed by 0..4 octets; TUNNELLING_FEATURE_* up to L = 24) and total_length symbolic (any value) for L = 6..12; all body octets symbolic; per-path budget 20 s (non-termination is reported as a hang)",
    "thorough": "(a) L = 0..10; (b) exact-length L = 6..44 (list-structured bodies: up to 8 octets of DIB/SRP list, device-information bodies followed by 0..6 octets, TUNNELLING_FEATURE_* up to L = 32), symbolic total_length for L = 6..12",
}
OUTSIDE = "datagrams longer than the bound (SecureWrapper/SearchResponse bodies beyond it); text content of DIB device names (opaque placeholder strings)"
ASSUMPTIONS = [
    "(b) assumes header octets 0,1 = 06 10 and the service type under test; (a) makes no assumption",
    "'consumed exactly the announced length' = the returned rest equals data[total_length:] with total_length as parsed from the header",
    "DIB device name / serial / MAC strings are opaque placeholders (strings are outside symx); slot dictionaries keyed by symbolic addresses concretise by forking",
]
EXPLANATION = ("C20: KNXIPFrame.from_knx with KNXIPHeader.from_knx and every body parser (HPAI, CRI/CRD, DIB, SRP, ...) runs on a "
               "symbolic datagram; every path must end in CouldNotParseKNXIP/IncompleteKNXIPFrame or a frame whose rest is "
               "data[total_length:]; IncompleteKNXIPFrame only if L < 6 or L < total_length (z3); the per-path time budget detects loops that make no progress.")
INTERESTING = ["frame", "CouldNotParseKNXIP", "IncompleteKNXIPFrame"]
REQUIRED_REACH = ["frame", "CouldNotParseKNXIP", "IncompleteKNXIPFrame"]


def jobs(tier, seed):
    from xknx.knxip.knxip_enum import KNXIPServiceType
    out = []
    a_top, ex_top, sy_top = (9, 40, 12) if tier == "quick" else (10, 44, 12)
    for L in range(0, a_top + 1):
        out.append(dict(name=f"any-L{L}", mode="any", L=L, cost=L * 3))
    LISTS = {"SEARCH_RESPONSE": 14, "SEARCH_RESPONSE_EXTENDED": 14, "SEARCH_REQUEST_EXTENDED": 14, "DESCRIPTION_RESPONSE": 6}
    list_room = 6 if tier == "quick" else 8
    for st in KNXIPServiceType:
        # exact-length jobs are grouped per service type in chunks of lengths; symbolic total_length separately
        top = ex_top if st.name not in LISTS else LISTS[st.name] + list_room
        step = 9 if st.name not in LISTS else 1
        if st.name.startswith("TUNNELLING_FEATURE"):
            top, step = (24 if tier == "quick" else 32), 3     # enum x enum forks per length; longer bodies are length-uniform
        exl = list(range(6, top + 1))
        for i in range(0, len(exl), step):
            out.append(dict(name=f"exact-{st.name}-{exl[i]}", mode="exact", st=st.value, Ls=exl[i:i + step], cost=20 if st.name not in LISTS else 30 + exl[i]))
        syl = list(range(6, sy_top + 1))
        for i in range(0, len(syl), 3):
            out.append(dict(name=f"symlen-{st.name}-{syl[i]}", mode="symlen", st=st.value, Ls=syl[i:i + 3], cost=25 + syl[i]))
        if st.name in ("SEARCH_RESPONSE", "SEARCH_RESPONSE_EXTENDED", "DESCRIPTION_RESPONSE"):
            # bodies that start with a 54-octet device information DIB followed by up to 8 further octets
            off = LISTS[st.name]
            for extra in range(0, (4 if tier == "quick" else 6) + 1, 2):
                out.append(dict(name=f"devinfo-{st.name}-{extra}", mode="exact", st=st.value, Ls=[off + 54 + extra], devinfo_at=off, cost=40 + extra))
    for j in out:
        j["tier"] = tier
    return out


def run_job(job, rep):
    from symx import core
    from vx.harness import trace_functions
    from vx.util import exc_site, describe
    import xknx.knxip.knxip as kk
    from xknx.exceptions import CouldNotParseKNXIP, IncompleteKNXIPFrame

    mode = job["mode"]
    Ls = [job["L"]] if mode == "any" else job["Ls"]
    first = [True]
    for L in Ls:
        def run(c):
            raw = c.fresh_bytes("b", L)
            c.notes["raw"] = raw
            if mode != "any":
                c.add(raw[0] == 6)
                c.add(raw[1] == 0x10)
                c.add(raw[2] * 256 + raw[3] == job["st"])
                if mode == "exact":
                    c.add(raw[4] * 256 + raw[5] == L)
                if job.get("devinfo_at") is not None:
                    c.add(raw[job["devinfo_at"]] == 54)
                    c.add(raw[job["devinfo_at"] + 1] == 1)
            if first[0]:
                first[0] = False
                return trace_functions(lambda: kk.KNXIPFrame.from_knx(raw), rep)
            return kk.KNXIPFrame.from_knx(raw)

        def judge(pr):
            c = pr.ctx
            raw = c.notes["raw"]
            if pr.kind == "unsupported":
                rep.inconcl(f"{job['name']} L={L}: {pr.value}"); return
            m = c.current_model()
            case = dict(raw=raw.concrete(m).hex())
            if pr.kind == "timeout":
                rep.violation(f"hang:{job.get('st', 'any')}", case, "parsing did not terminate within the per-path budget"); return
            if pr.kind == "ok":
                frame, rest = pr.value
                rep.reach["frame"] += 1
                rep.reach["st:" + frame.header.service_type_ident.name] += 1
                tl = frame.header.total_length
                tlv = core.concretize(tl) if core.is_sym(tl) else tl
                exp = raw[tlv:]
                st, mm = c.prove(core.sym_and(len(rest) == len(exp), rest == exp if len(rest) == len(exp) else False))
                rep.ob(st, "rest-not-announced-length", case if mm is None else dict(raw=raw.concrete(mm).hex()), f"rest {len(rest)} octets for total_length {tlv} of {L}")
                rep.witness(case, describe(frame), limit=1)
                rep.sample(dict(L=L, service=frame.header.service_type_ident.name, witness=case["raw"]), limit=1)
                return
            e = pr.value
            if isinstance(e, IncompleteKNXIPFrame):
                rep.reach["IncompleteKNXIPFrame"] += 1
                if L < 6:
                    rep.obligations += 1; rep.discharged += 1
                else:
                    tl = raw[4] * 256 + raw[5]
                    st, mm = c.prove(tl > L)
                    rep.ob(st, "incomplete-but-complete", case if mm is None else dict(raw=raw.concrete(mm).hex()), "IncompleteKNXIPFrame although all announced octets are present")
                rep.witness(case, describe(e), limit=1)
            elif isinstance(e, CouldNotParseKNXIP):
                rep.reach["CouldNotParseKNXIP"] += 1
                rep.obligations += 1; rep.discharged += 1
                rep.witness(case, describe(e), limit=1)
            else:
                rep.reach["undeclared"] += 1
                rep.ob("refuted", f"undeclared:{exc_site(e)}", case, repr(e))

        _, st = core.explore(run, on_path=judge, stop=rep.enough, timeout=(300 if job.get("tier", "quick") == "quick" else 1500), path_timeout=10)
        rep.add_stats(st)


def _parse(raw, limit=5):
    import signal
    from xknx.knxip import KNXIPFrame

    class Hang(BaseException):
        pass

    def h(*a):
        raise Hang()
    old = signal.signal(signal.SIGALRM, h)
    signal.setitimer(signal.ITIMER_REAL, limit)
    try:
        return KNXIPFrame.from_knx(raw)
    except Hang:
        return "hang"
    finally:
        signal.setitimer(signal.ITIMER_REAL, 0)
        signal.signal(signal.SIGALRM, old)


def concrete(case):
    from vx.util import describe
    try:
        r = _parse(bytes.fromhex(case["raw"]))
        return "hang" if r == "hang" else describe(r[0])
    except Exception as e:  # noqa: BLE001
        return describe(e)


def replay(case):
    from xknx.exceptions import CouldNotParseKNXIP, IncompleteKNXIPFrame
    raw = bytes.fromhex(case["raw"])
    try:
        r = _parse(raw)
    except IncompleteKNXIPFrame:
        if len(raw) >= 6 and len(raw) >= raw[4] * 256 + raw[5]:
            return True, "IncompleteKNXIPFrame although all announced octets are present"
        return False, "incomplete"
    except CouldNotParseKNXIP:
        return False, "CouldNotParseKNXIP"
    except MemoryError:
        return True, "MemoryError"
    except Exception as e:  # noqa: BLE001
        return True, f"undeclared {type(e).__name__}: {e}"
    if r == "hang":
        return True, "parsing did not terminate within 5 s"
    frame, rest = r
    if rest != raw[frame.header.total_length:]:
        return True, "rest is not data[total_length:]"
    return False, "parsed"
