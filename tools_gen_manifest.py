#!/usr/bin/env python3
"""Regenerates MANIFEST.json from the property modules under props/ (metadata only; no check is run)."""
import ast, json, os, re
ROOT = os.path.dirname(os.path.abspath(__file__))
props = [json.loads(l) for l in open(os.path.join(ROOT, "properties.jsonl"))]
NA = json.load(open(os.path.join(ROOT, "not_applicable.json")))
checks, na = [], []
for p in props:
    pid = p["id"]
    f = os.path.join(ROOT, "props", pid.lower() + ".py")
    if os.path.exists(f) and pid not in NA:
        src = open(f).read()
        tree = ast.parse(src)
        meta = {}
        for n in tree.body:
            if isinstance(n, ast.Assign) and isinstance(n.targets[0], ast.Name) and n.targets[0].id in ("LEVEL_TEXT", "LEVEL_NOTE", "TECHNIQUE", "ENGINE", "DESIGN_REF", "BOUNDS"):
                meta[n.targets[0].id] = ast.literal_eval(n.value)
        checks.append(dict(
            property_id=pid,
            quick_cmd=f"./check {pid} --tier quick",
            thorough_cmd=f"./check {pid} --tier thorough",
            evidence_file=f"/verif/evidence/{pid}.json",
            replay_cmd_template=f"./check {pid} --replay {{path}}",
            engine=meta.get("ENGINE", "symx"),
            level_claimed=dict(category="other",
                               text=meta.get("LEVEL_TEXT", "Bounded symbolic verification: the real functions are executed on symbolic inputs, z3 decides every path and assertion within the stated bounds (quick: " + meta.get("BOUNDS", {}).get("quick", "") + "); counterexamples are replayed on the unmodified code."),
                               design_ref=meta.get("DESIGN_REF", f"DESIGN.md §3 {pid}")),
            level_note=meta.get("LEVEL_NOTE", "Trusted: z3, the symx engine and its shims (validated per run against the real code through path witnesses), CPython. Bounds and cuts are listed in the evidence file."),
            technique=meta.get("TECHNIQUE", "symbolic execution of the real Python code (symx proxy objects) + z3 SMT, bounded"),
        ))
    else:
        na.append(dict(property_id=pid, reason=NA.get(pid, "check not built yet (work in progress)")))
man = dict(
    version=1,
    setup_cmd="./setup.sh",
    hooks=dict(guard="XKNX_VERIF", enable="no source hooks are needed: checks load /repo through an import hook (symx.loader) that compiles the current source; XKNX_VERIF is reserved",
               baseline_off_cmd="cd /repo && /venv/bin/python -m pytest -ra -q -p no:cacheprovider --timeout=900 --continue-on-collection-errors",
               source_commits=[], add_only=True),
    engines=[
        dict(name="symx", path="/verif/symx", serves_properties=[c["property_id"] for c in checks if c["engine"].startswith("symx")],
             kind_free_text="re-execution symbolic executor for real Python code: proxy ints/bytes/floats over z3 BitVec/Float64, import hook with shims, per-path SMT queries"),
        dict(name="crosshair", path="/verif/.venv", serves_properties=[c["property_id"] for c in checks if "crosshair" in c["engine"]],
             kind_free_text="CrossHair 0.0.110 symbolic execution for str-typed inputs"),
    ],
    checks=checks,
    notes="All checks: exit 0 held / 1 VIOLATION (replay-confirmed) / 3 harness error. Known findings: /verif/known_findings.json.",
    not_applicable=na,
)
json.dump(man, open(os.path.join(ROOT, "MANIFEST.json"), "w"), indent=1)
print("checks:", len(checks), "not_applicable:", len(na))
