"""C25 Connection lifecycle stays consistent under any failure schedule (partial)."""
from __future__ import annotations

ID = "C25"
BOUNDS = {
    "quick": "single-coroutine steps (symaio) of the lifecycle code, each from every relevant pre-state: (a) ConnectionManager._connection_state_changed from each of the 3 states to each state and connection type with 2 registered callbacks and 1 unregistered one; (b) _Tunnel._tunnel_lost called 1..3 times in a row with auto_reconnect on/off, reconnect task absent/present, channel set/unset, transport open/closed; (c) _Tunnel.disconnect() with a reconnect task absent/present, channel set/unset and every DisconnectRequest outcome {answered, refused, unanswered}; (d) _Tunnel._reconnect() over every schedule of up to 3 connect outcomes {ok, OSError, CommunicationError at the connect request}; (e) _Tunnel.connect() over the same outcomes; tunnels: UDPTunnel and TCPTunnel objects (shared _Tunnel code)",
    "thorough": "as quick with up to 5 connect outcomes in (d)",
}
OUTSIDE = "the interleaving of the reconnect task, the heartbeat task, send_cemi and a user disconnect inside the event loop (overlapping failures): only each coroutine's own step sequence is decided, with tasks as inert handles; secure tunnels' session handling; KNXIPInterface thread handling"
ASSUMPTIONS = [
    "'sends nothing after the user disconnected' is decomposed into the post-state of disconnect(): state DISCONNECTED, heartbeat stopped, reconnect task cancelled before the first await, communication channel cleared whatever the DisconnectRequest outcome, transport stopped",
    "'at most one reconnect at a time': _tunnel_lost creates a reconnect task only when none is registered",
]
EXPLANATION = "C25: real ConnectionManager and _Tunnel code, with the request/response classes, the transport and asyncio.create_task replaced by scripted, recording stand-ins; each scripted outcome is a fork."
INTERESTING = ["state-step", "tunnel-lost", "disconnect", "reconnect", "connect"]
REQUIRED_REACH = ["state-step", "tunnel-lost", "disconnect", "reconnect", "connect"]


def jobs(tier, seed):
    out = [dict(name="state-step", kind="state", cost=2)]
    for tun in ("UDPTunnel", "TCPTunnel"):
        out += [dict(name=f"tunnel-lost-{tun}", kind="lost", tun=tun, cost=5), dict(name=f"disconnect-{tun}", kind="disconnect", tun=tun, cost=5),
                dict(name=f"reconnect-{tun}", kind="reconnect", tun=tun, n=3 if tier == "quick" else 5, cost=10), dict(name=f"connect-{tun}", kind="connect", tun=tun, cost=5)]
    return out


class FakeTransport:
    def __init__(self, log, open_=True):
        self.log = log
        self.transport = object() if open_ else None

    def connect(self):
        from symx import aio

        def hook():
            self.log.append(("transport.connect",))
            self.transport = object()
        return aio.Ready(hook=hook)

    def stop(self):
        self.log.append(("transport.stop",))
        self.transport = None

    def send(self, frame, addr=None):
        self.log.append(("transport.send", type(frame.body).__name__))

    def getsockname(self):
        return ("192.168.1.5", 50000)

    def register_callback(self, *a, **k):
        return None


def mk_tunnel(tun, log, auto_reconnect=True, channel=7, open_=True):
    import types
    import xknx.io.tunnel as tm
    from xknx import XKNX
    from xknx.knxip import HPAI
    from xknx.telegram import IndividualAddress
    cls = getattr(tm, tun)
    t = cls.__new__(cls)
    xk = XKNX()
    t.xknx = xk
    t.auto_reconnect, t.auto_reconnect_wait = auto_reconnect, 3
    t.communication_channel = channel
    t.local_hpai = HPAI()
    t.sequence_number = 5
    t.cemi_received_callback = lambda raw: None
    t._data_endpoint_addr = None
    t._heartbeat = types.SimpleNamespace(start=lambda: log.append(("heartbeat.start",)), stop=lambda: log.append(("heartbeat.stop",)))
    t._reconnect_task = None
    t._requested_address = None
    t._src_address = IndividualAddress(0)
    t._send_lock = None
    t.transport = FakeTransport(log, open_)
    for name, val in (("local_ip", "192.168.1.5"), ("local_port", 0), ("route_back", False), ("gateway_ip", "192.168.1.1"), ("gateway_port", 3671), ("expected_sequence_number", 0),
                      ("_invalid_sequence_number_reconnect_task", None), ("_tunnelling", None)):
        try:
            setattr(t, name, val)
        except AttributeError:
            pass
    if hasattr(tm, "IncomingSequenceCounter") and "_sequence" in getattr(cls, "__slots__", ()):
        t._sequence = tm.IncomingSequenceCounter()
    states = []
    xk.connection_manager.register_connection_state_changed_cb(lambda s: (states.append(s.name), log.append(("state", s.name))))
    return t, xk, states


def install(tm, log, script):
    """Replace asyncio and the request/response classes in xknx.io.tunnel by recording stand-ins. script: dict of outcome lists."""
    import types
    from symx import aio
    from xknx.knxip import ConnectResponse, HPAI
    from xknx.knxip.connect_response import ConnectResponseData
    from xknx.knxip.knxip_enum import ConnectRequestType
    from xknx.telegram import IndividualAddress

    def sleep(d):
        return aio.Ready(hook=lambda: log.append(("sleep", d)))
    tm.asyncio = aio.asyncio_shim(log, extra=dict(sleep=sleep))

    class FakeDisconnect:
        def __init__(self, transport, communication_channel_id, local_hpai):
            self.ch = communication_channel_id

        def request(self):
            o = script["disconnect"].pop(0) if script.get("disconnect") else "ok"
            log.append(("disconnect.request", self.ch, o))
            return aio.Ready(exc=None if o == "ok" else tm.RequestResponseError(o))

    class FakeConnect:
        def __init__(self, transport, local_hpai, cri):
            pass

        def request(self):
            o = script["connect"].pop(0) if script.get("connect") else "ok"
            log.append(("connect.request", o))
            if o == "ok":
                return aio.Ready(value=ConnectResponse(communication_channel=9, data_endpoint=HPAI(ip_addr="192.168.1.1", port=3671),
                                                       crd=ConnectResponseData(request_type=ConnectRequestType.TUNNEL_CONNECTION, individual_address=IndividualAddress(4100))))
            return aio.Ready(exc=tm.CommunicationError("connect refused"))
    tm.Disconnect, tm.Connect = FakeDisconnect, FakeConnect


def run_job(job, rep):
    import types
    from symx import aio, core
    from vx.harness import trace_functions
    import xknx.io.tunnel as tm
    from xknx.core import XknxConnectionState, XknxConnectionType
    from xknx.exceptions import CommunicationError

    quiet = types.SimpleNamespace(debug=lambda *a, **k: None, warning=lambda *a, **k: None, info=lambda *a, **k: None, exception=lambda *a, **k: None, error=lambda *a, **k: None)
    tm.logger = quiet
    pick = lambda c, name, opts: opts[core.concretize(c.fresh_int(name, 0, len(opts) - 1))]

    if job["kind"] == "state":
        from xknx import XKNX
        S = list(XknxConnectionState)
        T = list(XknxConnectionType)

        def run(c):
            xk = XKNX()
            cm = xk.connection_manager
            s0, t0 = pick(c, "s0", S), pick(c, "t0", T)
            s1, t1 = pick(c, "s1", S), pick(c, "t1", T)
            cm._connection_state_changed(s0, t0)          # bring the manager into the pre-state through its own method
            calls = {"a": [], "b": [], "gone": []}
            cm.register_connection_state_changed_cb(calls["a"].append)
            cm.register_connection_state_changed_cb(calls["b"].append)
            cm.register_connection_state_changed_cb(calls["gone"].append)
            cm.unregister_connection_state_changed_cb(calls["gone"].append) if False else cm._connection_state_changed_cbs.pop()
            c.notes.update(s0=s0.name, s1=s1.name, t1=t1.name)
            f = lambda: cm.connection_state_changed(s1, t1)
            trace_functions(f, rep) if not rep.functions else f()
            return cm, calls, s0, s1

        def judge(pr):
            c = pr.ctx
            case = dict(kind="state", s0=c.notes.get("s0"), s1=c.notes.get("s1"), t1=c.notes.get("t1"))
            if pr.kind != "ok":
                rep.ob("refuted", f"state-step-raises:{type(pr.value).__name__}", case, repr(pr.value)); return
            cm, calls, s0, s1 = pr.value
            rep.reach["state-step"] += 1
            changed = s0 is not s1
            ok = (calls["a"] == ([s1] if changed else []) and calls["b"] == calls["a"] and not calls["gone"] and cm.state is s1
                  and cm.connected.is_set() == (s1 is XknxConnectionState.CONNECTED))
            rep.ob("proved" if ok else "refuted", "state-change-notification", case, f"callbacks {calls}, state {cm.state.name}, connected {cm.connected.is_set()}")
        _, st = core.explore(run, on_path=judge, timeout=120)
        rep.add_stats(st)
        return

    tun = job["tun"]

    if job["kind"] == "lost":
        def run(c):
            log = []
            install(tm, log, {})
            auto = pick(c, "auto", [True, False])
            has_task = pick(c, "task", [False, True])
            channel = pick(c, "channel", [7, None])
            open_ = pick(c, "open", [True, False])
            times = pick(c, "times", [1, 2, 3])
            t, xk, states = mk_tunnel(tun, log, auto_reconnect=auto, channel=channel, open_=open_)
            xk.connection_manager._connection_state_changed(XknxConnectionState.CONNECTED, XknxConnectionType.TUNNEL_UDP)
            old = aio.InertTask(log) if has_task else None
            t._reconnect_task = old
            log.clear()
            c.notes.update(auto=auto, has_task=has_task, channel=channel, open=open_, times=times)
            for _ in range(times):
                f = lambda: t._tunnel_lost()
                trace_functions(f, rep) if not rep.functions else f()
            return t, log, old, xk

        def judge(pr):
            c = pr.ctx
            n = c.notes
            case = dict(kind="lost", tun=tun, auto=n.get("auto"), has_task=n.get("has_task"), channel=n.get("channel"), open=n.get("open"), times=n.get("times"))
            if pr.kind != "ok":
                rep.ob("refuted", f"tunnel-lost-raises:{type(pr.value).__name__}", case, repr(pr.value)); return
            t, log, old, xk = pr.value
            rep.reach["tunnel-lost"] += 1
            created = log.count(("create_task",))
            if n["auto"]:
                ok = created == (0 if n["has_task"] else 1) and t._reconnect_task is not None and (t._reconnect_task is old) == n["has_task"] and ("transport.stop",) not in log
                what = f"{created} reconnect tasks created with a task {'present' if n['has_task'] else 'absent'}"
            else:
                sends = [e for e in log if e[0] == "transport.send"]
                want_send = 1 if (n["open"] and n["channel"] is not None) else 0
                ok = created == 0 and xk.connection_manager.state is XknxConnectionState.DISCONNECTED and len(sends) == want_send and (("transport.stop",) in log) == n["open"]
                what = f"no auto reconnect: {len(sends)} frames sent, state {xk.connection_manager.state.name}, log {log[:6]}"
            rep.ob("proved" if ok else "refuted", "tunnel-lost:" + ("reconnect-count" if n["auto"] else "shutdown"), case, what)
        _, st = core.explore(run, on_path=judge, timeout=120)
        rep.add_stats(st)
        return

    if job["kind"] == "disconnect":
        def run(c):
            log = []
            outcome = pick(c, "outcome", ["ok", "refused", "unanswered"])
            install(tm, log, dict(disconnect=[outcome]))
            has_task = pick(c, "task", [False, True])
            channel = pick(c, "channel", [7, None])
            t, xk, states = mk_tunnel(tun, log, channel=channel)
            xk.connection_manager._connection_state_changed(XknxConnectionState.CONNECTED, XknxConnectionType.TUNNEL_UDP)
            t._reconnect_task = aio.InertTask(log) if has_task else None
            log.clear()
            c.notes.update(outcome=outcome, has_task=has_task, channel=channel)
            f = lambda: aio.drive(t.disconnect())
            r = trace_functions(f, rep) if not rep.functions else f()
            return t, log, xk, r

        def judge(pr):
            c = pr.ctx
            n = c.notes
            case = dict(kind="disconnect", tun=tun, outcome=n.get("outcome"), has_task=n.get("has_task"), channel=n.get("channel"))
            if pr.kind != "ok":
                rep.ob("refuted", f"disconnect-raises:{type(pr.value).__name__}", case, repr(pr.value)); return
            t, log, xk, r = pr.value
            rep.reach["disconnect"] += 1
            kinds = [e[0] for e in log]
            problems = []
            if xk.connection_manager.state is not XknxConnectionState.DISCONNECTED:
                problems.append("state not DISCONNECTED")
            if "heartbeat.stop" not in kinds:
                problems.append("heartbeat not stopped")
            if n["has_task"]:
                if "task.cancel" not in kinds:
                    problems.append("reconnect task not cancelled")
                elif "disconnect.request" in kinds and kinds.index("task.cancel") > kinds.index("disconnect.request"):
                    problems.append("reconnect task cancelled only after waiting for the DisconnectResponse")
            if (n["channel"] is not None) != ("disconnect.request" in kinds):
                problems.append("DisconnectRequest presence does not follow the channel")
            if t.communication_channel is not None:
                problems.append(f"communication channel still {t.communication_channel} after disconnect ({n['outcome']})")
            if kinds[-1:] != ["transport.stop"]:
                problems.append("transport not stopped last")
            rep.ob("refuted" if problems else "proved", "disconnect:" + (problems[0][:50] if problems else "ok"), case, "; ".join(problems) or "ok")
        _, st = core.explore(run, on_path=judge, timeout=120)
        rep.add_stats(st)
        return

    if job["kind"] in ("reconnect", "connect"):
        N = job.get("n", 1)

        def run(c):
            log = []
            outs = []
            steps = N if job["kind"] == "reconnect" else 1
            for i in range(steps):
                o = pick(c, f"o{i}", ["ok", "oserror", "refused"])
                outs.append(o)
                if o == "ok":
                    break
            if job["kind"] == "reconnect" and outs[-1] != "ok":
                outs.append("ok")                      # the loop only ends on success: the bounded script ends with one
            script = dict(connect=[o for o in outs if o != "oserror"], disconnect=["unanswered"])
            install(tm, log, script)
            channel = pick(c, "channel", [7, None])
            t, xk, states = mk_tunnel(tun, log, channel=channel)
            xk.connection_manager._connection_state_changed(XknxConnectionState.CONNECTED, XknxConnectionType.TUNNEL_UDP)
            it = iter(outs)
            real_connect = t.transport.connect

            def transport_connect():
                o = next(it)
                if o == "oserror":
                    return aio.Ready(exc=OSError("unreachable"), hook=lambda: log.append(("transport.connect", "oserror")))
                return real_connect()
            t.transport.connect = transport_connect
            if hasattr(type(t), "setup_tunnel"):
                pass
            log.clear()
            c.notes.update(outs=outs, channel=channel)
            if job["kind"] == "reconnect":
                f = lambda: aio.drive(t._reconnect())
                r = ("ok", trace_functions(f, rep) if not rep.functions else f())
            else:
                try:
                    f = lambda: aio.drive(t.connect())
                    r = ("ok", trace_functions(f, rep) if not rep.functions else f())
                except CommunicationError as e:
                    r = ("comm-error", e)
            return t, log, xk, r, states

        def judge(pr):
            c = pr.ctx
            n = c.notes
            case = dict(kind=job["kind"], tun=tun, outs=n.get("outs"), channel=n.get("channel"))
            if pr.kind != "ok":
                rep.ob("refuted", f"{job['kind']}-raises:{type(pr.value).__name__}", case, repr(pr.value)); return
            t, log, xk, r, states = pr.value
            rep.reach[job["kind"]] += 1
            outs = n["outs"]
            problems = []
            st_log = [e[1] for e in log if e[0] == "state"]
            cm = xk.connection_manager
            if job["kind"] == "reconnect":
                fails = len(outs) - 1
                want = ["DISCONNECTED"] + ["CONNECTING", "DISCONNECTED"] * fails + ["CONNECTING", "CONNECTED"]
                if st_log != want:
                    problems.append(f"state notifications {st_log}, expected {want}")
                sleeps = [e[1] for e in log if e[0] == "sleep"]
                if sleeps != [3] * fails:
                    problems.append(f"waits between attempts {sleeps}")
                if cm.state is not XknxConnectionState.CONNECTED or t.communication_channel != 9 or log.count(("heartbeat.start",)) != 1:
                    problems.append(f"end state {cm.state.name}, channel {t.communication_channel}, heartbeat starts {log.count(('heartbeat.start',))}")
                if n["channel"] is not None and not any(e[0] == "disconnect.request" for e in log):
                    problems.append("old channel not released before reconnecting")
            else:
                if outs[0] == "ok":
                    if r[0] != "ok" or st_log != ["CONNECTING", "CONNECTED"] or t.communication_channel != 9 or t.sequence_number != 0:
                        problems.append(f"successful connect: {r[0]}, notifications {st_log}, channel {t.communication_channel}, sequence {t.sequence_number}")
                else:
                    if r[0] != "comm-error" or st_log != ["DISCONNECTED", "CONNECTING", "DISCONNECTED"][1:] and st_log != ["CONNECTING", "DISCONNECTED"]:
                        problems.append(f"failed connect: {r[0]}, notifications {st_log}")
                    if ("transport.stop",) not in log or ("heartbeat.start",) in log or cm.connected.is_set():
                        problems.append("failed connect leaves the transport open, a heartbeat running or the connected flag set")
            if cm.connected.is_set() != (cm.state is XknxConnectionState.CONNECTED):
                problems.append("connected flag disagrees with the state")
            rep.ob("refuted" if problems else "proved", f"{job['kind']}:" + (problems[0][:40] if problems else "ok"), case, "; ".join(problems) or "ok")
        _, st = core.explore(run, on_path=judge, timeout=300)
        rep.add_stats(st)


def replay(case):
    """Concrete re-run under the real event loop with scripted request classes."""
    import asyncio
    import types
    import xknx.io.tunnel as tm
    from xknx import XKNX
    from xknx.core import XknxConnectionState, XknxConnectionType
    from xknx.exceptions import CommunicationError
    from xknx.knxip import ConnectResponse, HPAI
    from xknx.knxip.connect_response import ConnectResponseData
    from xknx.knxip.knxip_enum import ConnectRequestType
    from xknx.telegram import IndividualAddress

    kind = case["kind"]

    async def go():
        if kind == "state":
            xk = XKNX()
            cm = xk.connection_manager
            S, T = XknxConnectionState, XknxConnectionType
            cm._connection_state_changed(S[case["s0"]], T.NOT_CONNECTED)
            a, b = [], []
            cm.register_connection_state_changed_cb(a.append)
            cm.register_connection_state_changed_cb(b.append)
            cm.connection_state_changed(S[case["s1"]], T[case["t1"]])
            changed = case["s0"] != case["s1"]
            ok = a == ([S[case["s1"]]] if changed else []) and a == b and cm.connected.is_set() == (case["s1"] == "CONNECTED") and cm.state is S[case["s1"]]
            return (not ok), f"{case}: callbacks {a} / {b}, connected {cm.connected.is_set()}"
        log = []
        script = dict(disconnect=[case.get("outcome", "unanswered")], connect=[o for o in case.get("outs", []) if o != "oserror"])

        class FakeDisconnect:
            def __init__(self, transport, communication_channel_id, local_hpai):
                pass

            async def request(self):
                o = script["disconnect"].pop(0) if script["disconnect"] else "ok"
                log.append(("disconnect.request", o))
                await asyncio.sleep(0)
                if o != "ok":
                    raise tm.RequestResponseError(o)

        class FakeConnect:
            def __init__(self, transport, local_hpai, cri):
                pass

            async def request(self):
                o = script["connect"].pop(0) if script["connect"] else "ok"
                log.append(("connect.request", o))
                if o != "ok":
                    raise CommunicationError("refused")
                return ConnectResponse(communication_channel=9, data_endpoint=HPAI(ip_addr="192.168.1.1", port=3671),
                                       crd=ConnectResponseData(request_type=ConnectRequestType.TUNNEL_CONNECTION, individual_address=IndividualAddress(4100)))
        saved = (tm.Disconnect, tm.Connect)
        tm.Disconnect, tm.Connect = FakeDisconnect, FakeConnect
        try:
            xk = XKNX()
            t = getattr(tm, case["tun"]).__new__(getattr(tm, case["tun"]))
            t.xknx = xk
            t.auto_reconnect, t.auto_reconnect_wait = case.get("auto", True), 0
            t.communication_channel = case.get("channel", 7)
            t.local_hpai = HPAI()
            t.sequence_number = 5
            t.cemi_received_callback = lambda raw: None
            t._data_endpoint_addr = None
            t._heartbeat = types.SimpleNamespace(start=lambda: log.append(("heartbeat.start",)), stop=lambda: log.append(("heartbeat.stop",)))
            t._reconnect_task = None
            t._requested_address = None
            t._src_address = IndividualAddress(0)
            t._send_lock = asyncio.Lock()
            outs = iter(case.get("outs", []))

            class Tr:
                transport = object() if case.get("open", True) else None

                async def connect(self_):
                    o = next(outs, "ok")
                    if o == "oserror":
                        raise OSError("unreachable")
                    self_.transport = object()

                def stop(self_):
                    log.append(("transport.stop",))
                    self_.transport = None

                def send(self_, frame, addr=None):
                    log.append(("transport.send",))

                def getsockname(self_):
                    return ("192.168.1.5", 50000)
            t.transport = Tr()
            for name, val in (("local_ip", "192.168.1.5"), ("local_port", 0), ("route_back", False), ("gateway_ip", "192.168.1.1"), ("gateway_port", 3671),
                              ("_invalid_sequence_number_reconnect_task", None)):
                try:
                    setattr(t, name, val)
                except AttributeError:
                    pass
            if "_sequence" in getattr(type(t), "__slots__", ()):
                t._sequence = tm.IncomingSequenceCounter()
            xk.connection_manager._connection_state_changed(XknxConnectionState.CONNECTED, XknxConnectionType.TUNNEL_UDP)
            states = []
            xk.connection_manager.register_connection_state_changed_cb(lambda s: states.append(s.name))
            if kind == "lost":
                running = asyncio.create_task(asyncio.sleep(30)) if case["has_task"] else None
                t._reconnect_task = running
                created = []
                real_create = asyncio.create_task

                def counting_create(coro, **kw):
                    created.append(1)
                    coro.close()
                    return real_create(asyncio.sleep(30))
                tm.asyncio.create_task, saved_ct = counting_create, tm.asyncio.create_task
                try:
                    for _ in range(case["times"]):
                        t._tunnel_lost()
                finally:
                    tm.asyncio.create_task = saved_ct
                for task in asyncio.all_tasks() - {asyncio.current_task()}:
                    task.cancel()
                if case["auto"]:
                    want = 0 if case["has_task"] else 1
                    return (len(created) != want), f"{case}: {len(created)} reconnect tasks created"
                sends = [e for e in log if e[0] == "transport.send"]
                want_send = 1 if (case["open"] and case["channel"] is not None) else 0
                bad = len(created) != 0 or len(sends) != want_send or xk.connection_manager.state is not XknxConnectionState.DISCONNECTED
                return bad, f"{case}: created {len(created)}, frames {len(sends)}, state {xk.connection_manager.state.name}"
            if kind == "disconnect":
                cancelled_at = []
                if case["has_task"]:
                    async def long():
                        try:
                            await asyncio.sleep(30)
                        except asyncio.CancelledError:
                            cancelled_at.append(len(log))
                            raise
                    t._reconnect_task = asyncio.create_task(long())
                    await asyncio.sleep(0)
                await t.disconnect()
                await asyncio.sleep(0)
                problems = []
                if t.communication_channel is not None:
                    problems.append(f"channel still {t.communication_channel}")
                if case["has_task"]:
                    req_at = next((i for i, e in enumerate(log) if e[0] == "disconnect.request"), None)
                    if not cancelled_at:
                        problems.append("reconnect task not cancelled")
                    elif req_at is not None and not t._reconnect_task.cancelling() and False:
                        pass
                    # the cancellation must have been requested before the DisconnectRequest wait: the task sees it at its next step,
                    # i.e. during the fake request's sleep(0), before the request completes
                    if cancelled_at and req_at is not None and cancelled_at[0] > req_at + 1:
                        problems.append("reconnect task cancelled only after the DisconnectRequest exchange")
                if xk.connection_manager.state is not XknxConnectionState.DISCONNECTED or ("transport.stop",) not in log:
                    problems.append("state/transport not shut down")
                return bool(problems), f"{case}: {'; '.join(problems) or 'ok'}"
            if kind == "reconnect":
                await asyncio.wait_for(t._reconnect(), 5)
                fails = len(case["outs"]) - 1
                want = ["DISCONNECTED"] + ["CONNECTING", "DISCONNECTED"] * fails + ["CONNECTING", "CONNECTED"]
                bad = states != want or t.communication_channel != 9 or log.count(("heartbeat.start",)) != 1
                return bad, f"{case}: notifications {states}, channel {t.communication_channel}"
            try:
                await t.connect()
                how = "ok"
            except CommunicationError:
                how = "comm-error"
            if case["outs"][0] == "ok":
                bad = how != "ok" or states != ["CONNECTING", "CONNECTED"] or t.communication_channel != 9
            else:
                bad = how != "comm-error" or states != ["CONNECTING", "DISCONNECTED"] or ("transport.stop",) not in log or xk.connection_manager.connected.is_set()
            return bad, f"{case}: {how}, notifications {states}"
        finally:
            tm.Disconnect, tm.Connect = saved
    return asyncio.run(go())
