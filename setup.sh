#!/bin/bash
# Build the verification venv offline: overlay on /venv (repo deps) + z3-solver + crosshair-tool from the wheelhouse.
set -e
cd "$(dirname "$0")"
V=/verif/.venv
if [ ! -x $V/bin/python ] || ! $V/bin/python -c "import z3, xknx, crosshair" >/dev/null 2>&1; then
  rm -rf $V
  /venv/bin/python -m venv $V
  SP=$($V/bin/python -c "import site; print(site.getsitepackages()[0])")
  printf '/venv/lib/python3.12/site-packages\n/repo\n' > $SP/verif_overlay.pth
  PIP_NO_INDEX=1 $V/bin/pip install -q --no-index --find-links /opt/veriftools/wheels z3-solver crosshair-tool jsonschema >/dev/null
fi
$V/bin/python -c "import z3, xknx, crosshair; print('verif venv ok: z3', z3.get_version_string())"
