#!/bin/bash
# usage: tools/keep_seed.sh <src_dir with patch.diff demo.py notes.md> <seed name e.g. C12_B> <property id> "<checks that should catch it>"
# Confirms in a scratch worktree of /repo HEAD: patch applies, full test suite result == baseline, demo exits 0 without / 1 with the patch.
SRC=$1; NAME=$2; PID=$3
WT=/tmp/keep_wt_$NAME
git -C /repo worktree remove --force $WT 2>/dev/null
git -C /repo worktree add -q --detach $WT HEAD || exit 2
cd $WT
PYTHONPATH=$WT /venv/bin/python $SRC/demo.py >/dev/null 2>&1; D0=$?
if ! git apply $SRC/patch.diff 2>/dev/null; then
  patch -p1 -s --no-backup-if-mismatch < $SRC/patch.diff || { echo "PATCH FAILS"; git -C /repo worktree remove --force $WT; exit 2; }
fi
T=$(PYTHONPATH=$WT /venv/bin/python -m pytest -q -p no:cacheprovider --timeout=900 2>&1 | tail -1)
PYTHONPATH=$WT /venv/bin/python $SRC/demo.py > /tmp/keep_demo_$NAME.txt 2>&1; D1=$?
echo "$NAME: demo without=$D0 with=$D1 tests: $T"
OK=0
if [ $D0 -eq 0 ] && [ $D1 -eq 1 ] && echo "$T" | grep -q "2 failed, 3893 passed"; then
  OK=1
  mkdir -p /verif/seeded/$NAME
  git diff > /verif/seeded/$NAME/patch.diff
  cp $SRC/demo.py /verif/seeded/$NAME/demo.py
  cp $SRC/notes.md /verif/seeded/$NAME/notes.md 2>/dev/null
  python3 - "$NAME" "$PID" "$T" "$D0" "$D1" <<'P'
import json, sys, subprocess
name, pid, t, d0, d1 = sys.argv[1:6]
notes = open(f"/verif/seeded/{name}/notes.md").read() if __import__("os").path.exists(f"/verif/seeded/{name}/notes.md") else ""
head = subprocess.check_output(["git", "-C", "/repo", "rev-parse", "--short", "HEAD"], text=True).strip()
json.dump(dict(seed=name, breaks_property=pid, base_commit=head, needs_to_manifest=notes[:1500],
               confirmed=dict(worktree="scratch worktree of /repo HEAD under /tmp (removed afterwards)",
                              test_suite_with_patch=t.strip(), demo_exit_without_patch=int(d0), demo_exit_with_patch=int(d1),
                              commands=["git apply patch.diff", "PYTHONPATH=<wt> /venv/bin/python -m pytest -q -p no:cacheprovider --timeout=900", "PYTHONPATH=<wt> /venv/bin/python demo.py"]),
               origin="written by an independent sub-agent given only the property text and a scratch worktree"),
          open(f"/verif/seeded/{name}/meta.json", "w"), indent=1)
P
else
  echo "NOT KEPT"
fi
cd /; git -C /repo worktree remove --force $WT
exit $((1-OK))
