"""Reference for KNX IP Secure (03_08_09 KNXnet/IP Secure), written independently of xknx over an abstract block cipher
enc(key, block16) and a 128-bit counter adder bv_add(counter16, k).

 SECURE_WRAPPER:  header(6: 06 10 09 50 len) | session_id(2) | seq_info(6) | serial(6) | tag(2) | C | MAC'(16)
     B0   = seq_info | serial | tag | len(P) (2 octets)
     A    = header | session_id
     MAC  = last block of AES-CBC(IV=0) over  B0 | len(A) (2 octets) | A | P  zero padded to a multiple of 16
     Ctr0 = seq_info | serial | tag | ff 00
     MAC' = MAC xor E(Ctr0);   C = P xor E(Ctr0+1) | E(Ctr0+2) ...
 TIMER_NOTIFY:    MAC over B0 = timer(6) | serial | tag | 00 00, A = header 06 10 09 55 00 24, no payload; Ctr0 = timer|serial|tag|ff 00
 SESSION_RESPONSE MAC: key = device authentication code, B0 = 0^16, A = 06 10 09 52 00 38 | session_id | (client_pub xor server_pub), Ctr0 = 0^14 ff 00
 SESSION_AUTHENTICATE MAC: key = user password hash, B0 = 0^16, A = 06 10 09 53 00 18 | 00 | user_id | (client_pub xor server_pub), Ctr0 = 0^14 ff 00
"""


def xor(a, b):
    return [x ^ y for x, y in zip(a, b)]


def cbc_mac(enc, key, data):
    data = list(data)
    if len(data) % 16:
        data += [0] * (16 - len(data) % 16)
    y = [0] * 16
    for i in range(0, len(data), 16):
        y = enc(key, xor(data[i:i + 16], y))
    return y


def mac16(enc, key, b0, a, p=()):
    a, p = list(a), list(p)
    return cbc_mac(enc, key, list(b0) + [len(a) >> 8, len(a) & 0xFF] + a + p)


def wrap(enc, bv_add, key, session_id2, seq6, serial6, tag2, plain):
    plain = list(plain)
    total = 38 + len(plain)
    header = [0x06, 0x10, 0x09, 0x50, total >> 8, total & 0xFF]
    mac = mac16(enc, key, list(seq6) + list(serial6) + list(tag2) + [len(plain) >> 8, len(plain) & 0xFF], header + list(session_id2), plain)
    ctr0 = list(seq6) + list(serial6) + list(tag2) + [0xFF, 0x00]
    mac_enc = xor(mac, enc(key, ctr0))
    c = []
    for i in range(0, len(plain), 16):
        c += xor(plain[i:i + 16], enc(key, bv_add(ctr0, 1 + i // 16)))
    return header + list(session_id2) + list(seq6) + list(serial6) + list(tag2) + c + mac_enc


def unwrap_check(enc, bv_add, key, header6, session_id2, seq6, serial6, tag2, c, mac16_rx):
    """Returns (list of (decrypted MAC octet, expected MAC octet), plain octets) for a received wrapper."""
    ctr0 = list(seq6) + list(serial6) + list(tag2) + [0xFF, 0x00]
    p = []
    for i in range(0, len(c), 16):
        p += xor(list(c)[i:i + 16], enc(key, bv_add(ctr0, 1 + i // 16)))
    mac_tr = xor(list(mac16_rx), enc(key, ctr0))
    exp = mac16(enc, key, list(seq6) + list(serial6) + list(tag2) + [len(p) >> 8, len(p) & 0xFF], list(header6) + list(session_id2), p)
    return list(zip(mac_tr, exp)), p


def timer_notify_mac(enc, key, timer6, serial6, tag2):
    mac = mac16(enc, key, list(timer6) + list(serial6) + list(tag2) + [0, 0], [0x06, 0x10, 0x09, 0x55, 0x00, 0x24])
    return xor(mac, enc(key, list(timer6) + list(serial6) + list(tag2) + [0xFF, 0x00]))


CTR0_HANDSHAKE = [0] * 14 + [0xFF, 0x00]


def session_response_mac(enc, device_auth_key, session_id2, pub_xor32):
    mac = mac16(enc, device_auth_key, [0] * 16, [0x06, 0x10, 0x09, 0x52, 0x00, 0x38] + list(session_id2) + list(pub_xor32))
    return xor(mac, enc(device_auth_key, CTR0_HANDSHAKE))


def session_authenticate_mac(enc, user_key, user_id, pub_xor32):
    mac = mac16(enc, user_key, [0] * 16, [0x06, 0x10, 0x09, 0x53, 0x00, 0x18, 0x00, user_id] + list(pub_xor32))
    return xor(mac, enc(user_key, CTR0_HANDSHAKE))
