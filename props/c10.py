"""C10 Complex and enum datapoint values round-trip through their JSON form."""
from __future__ import annotations

ID = "C10"
BOUNDS = {
    "quick": "every DPTComplex and DPTEnum class of DPTBase.dpt_class_tree(); the declared-length payload with all octets (or the 6-bit value) symbolic; per class budget 60 s; float-valued fields with exact IEEE-754 semantics (round(x, ndigits) of the colour/transition types is over-approximated: |r - x| <= 0.5*10^-n, r = 0 for x = 0; verdicts there count only if they replay on the real code)",
    "thorough": "as quick with 900 s per class",
}
OUTSIDE = "classes listed as inconclusive in the evidence (DPT 242/243/249 colour/transition types use round(x, ndigits), which is not modelled exactly); json.dumps itself is a C function: JSON-nativeness is decided structurally on the symbolic value and one concrete witness per path is pushed through json.dumps/json.loads"
ASSUMPTIONS = ["JSON-native = dict with str keys / list / str / bool / None / int / float leaves (a symbolic int, bool or float stands for such a leaf)"]
EXPLANATION = "C10: from_knx -> as_dict()/name.lower() -> to_knx -> from_knx on symbolic payloads; z3 decides acceptance and equality; the dict form is walked structurally."
INTERESTING = ["roundtrip", "rejected-payload"]
REQUIRED_REACH = ["roundtrip", "rejected-payload"]
# classes whose decoding uses round(x, ndigits): modelled by an over-approximation, so a 'differs' verdict there is only
# a finding if it replays on the real code (otherwise the cell is inconclusive)
RELAXED = ("DPTColorXYY", "DPTColorXYYTransition", "DPTColorTemperatureTransition")
ABSTRACT_SIGS = tuple(f"json-roundtrip-differs:{n}" for n in RELAXED) + tuple(f"json-form-rejected-by-encoder:{n}" for n in RELAXED)


def jobs(tier, seed):
    from props.dpt_common import all_classes, chunks
    from xknx.dpt.dpt import DPTComplex, DPTEnum
    names = [c.__name__ for c in all_classes() if issubclass(c, (DPTComplex, DPTEnum))]
    budget = 60 if tier == "quick" else 900
    heavy = {"DPTDateTime"}
    out = [dict(name=f"classes-{i}", classes=ch, budget=budget, cost=len(ch)) for i, ch in enumerate(chunks([n for n in names if n not in heavy and n not in RELAXED], 3))]
    out += [dict(name=f"relaxed-{n}", classes=[n], budget=45 if tier == "quick" else 900, cost=500) for n in RELAXED if n in names]
    for n in heavy:
        for v in range(0, 32, 2):
            out.append(dict(name=f"{n}-flags{v:02x}", classes=[n], budget=budget, assume=(6, 0x1E, v), cost=20))
    return out


def json_native(core, fp, x):
    if x is None or isinstance(x, (str, bool, int, float, core.SymInt, core.SymBool, fp.SymFloat)):
        return True
    if isinstance(x, dict):
        return all(isinstance(k, str) and json_native(core, fp, v) for k, v in x.items())
    if isinstance(x, (list,)):
        return all(json_native(core, fp, v) for v in x)
    return False


def run_job(job, rep):
    import json
    from symx import core, fp
    from vx.harness import trace_functions
    from props.dpt_common import class_by_name, payload_json
    from props.c08 import same_value
    from xknx.dpt import DPTArray, DPTBinary
    from xknx.dpt.dpt import DPTComplex, DPTEnum
    from xknx.exceptions import ConversionError, CouldNotParseTelegram

    fp.MODE["mode"] = "exact"
    fp.MODE["round_ndigits"] = "relaxed"
    core.QUERY_TIMEOUT_MS[0] = 40000
    for name in job["classes"]:
        cls = class_by_name(name)

        def run(c):
            if cls.payload_type is DPTBinary:
                p = DPTBinary(c.fresh_int("v", 0, (1 << cls.payload_length) - 1 if cls.payload_length else 63))
            else:
                p = DPTArray(tuple(c.fresh_int(f"b{i}", 0, 255) for i in range(cls.payload_length)))
            c.notes["p"] = p
            if job.get("assume"):
                idx, mask, val = job["assume"]
                c.add((p.value[idx] & mask) == val)
            try:
                v = trace_functions(lambda: cls.from_knx(p), rep) if len(rep.functions) < 350 and not rep.extra.get(name) else cls.from_knx(p)
            except (ConversionError, CouldNotParseTelegram):
                return None
            form = v.as_dict() if issubclass(cls, DPTComplex) else v.name.lower()
            try:
                p2 = cls.to_knx(form)
            except ConversionError as e:
                return ("encoder-rejects", v, form, e)
            v2 = cls.from_knx(p2)
            return ("ok", v, form, v2)

        def judge(pr):
            c = pr.ctx
            if pr.kind in ("unsupported", "timeout"):
                rep.inconcl(f"{name}: {pr.kind} {pr.value}"); return
            m = c.current_model()
            mcase = lambda mm: dict(cls=name, payload=payload_json(core, mm, c.notes["p"]))
            case = mcase(m)
            if pr.kind == "raise":
                rep.ob("refuted", f"json-roundtrip-raises:{name}:{type(pr.value).__name__}", case, repr(pr.value)); return
            if pr.value is None:
                rep.reach["rejected-payload"] += 1
                return
            if pr.value[0] == "encoder-rejects":
                rep.ob("refuted", f"json-form-rejected-by-encoder:{name}", case, f"form {core.model_val(m, pr.value[2])!r}: {pr.value[3]!r}"); return
            _, v, form, v2 = pr.value
            rep.reach["roundtrip"] += 1
            if not json_native(core, fp, form):
                rep.ob("refuted", f"form-not-json-native:{name}", case, repr(form)); return
            try:
                conc = core.model_val(m, form)
                back = json.loads(json.dumps(conc))
                if back != conc and not (isinstance(conc, dict) and any(isinstance(x, float) and x != x for x in conc.values())):
                    rep.ob("refuted", f"json-cycle-changes-form:{name}", case, f"{conc!r} -> {back!r}"); return
            except (TypeError, ValueError) as e:
                rep.ob("refuted", f"form-not-json-serialisable:{name}", case, repr(e)); return
            st, mm = c.prove(same_value(core, fp, v, v2))
            rep.ob(st, f"json-roundtrip-differs:{name}", mcase(mm) if mm is not None else case, "from_knx(to_knx(json form)) != value")
            rep.sample(dict(cls=name, witness=case["payload"], form=conc), limit=1)
        rep.extra[name] = True
        _, st = core.explore(run, on_path=judge, stop=rep.enough, timeout=job["budget"], path_timeout=45)
        rep.add_stats(st)


def replay(case):
    import json
    from props.dpt_common import class_by_name, payload_from_json
    from xknx.dpt.dpt import DPTComplex
    from xknx.exceptions import ConversionError, CouldNotParseTelegram
    cls = class_by_name(case["cls"])
    p = payload_from_json(case["payload"])
    try:
        v = cls.from_knx(p)
    except (ConversionError, CouldNotParseTelegram):
        return False, "rejected"
    form = v.as_dict() if issubclass(cls, DPTComplex) else v.name.lower()
    try:
        form2 = json.loads(json.dumps(form))
    except (TypeError, ValueError) as e:
        return True, f"{cls.__name__}: form {form!r} is not JSON serialisable: {e}"
    try:
        p2 = cls.to_knx(form2)
    except ConversionError as e:
        return True, f"{cls.__name__}: {p!r} -> {v!r} -> {form2!r} rejected by to_knx: {e}"
    v2 = cls.from_knx(p2)
    if v2 != v:
        return True, f"{cls.__name__}: {p!r} -> {form2!r} -> {p2!r} -> {v2!r} != {v!r}"
    return False, "ok"
