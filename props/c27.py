"""C27 Routing honours busy flow control and the indication spacing (partial)."""
from __future__ import annotations

ID = "C27"
BOUNDS = {
    "quick": "(a) _RoutingFlowControl.handle_routing_busy as ONE step from an arbitrary pause state: not pausing, or pausing with any wait time 0..65535 ms, busy-frame counter 0..50, last busy frame at a symbolic earlier reading; the running pause (resp. the previous indication) started at 1000.0 s; in (a) the reading of the busy frame is forked over k in {0, 1, 10, 11, 103, 1024, 4095} ticks of 2^-10 s after the pause start and the previous busy frame over {0, 10, 11, 500, k} ticks earlier; in (c) readings are t = 1000 + k*2^-10 s with k < 2^12 symbolic; the incoming RoutingBusy carries any wait time 0..65535 ms, and is also delivered through Routing._handle_frame; (b) _resume_sending stepped with asyncio.sleep recorded, random.random() = j*2^-16 (j < 2^16 symbolic), wait time from {0, 1, 100, 999, 4095, 65535} ms, counter 0..8; (c) throttle()/Routing.send_cemi stepped with the ready event and sleeps recorded: last-sent reading and current reading symbolic, ready or not ready",
    "thorough": "as quick with k < 2^16, wait times 0..65535 ms and counter 0..40 in (b)",
}
OUTSIDE = "real timer expiry and cancellation delivery in the event loop (the timer is an inert handle; its body is stepped separately); several senders waiting in throttle() at once; loop.time() readings that are not multiples of 2^-10 s"
ASSUMPTIONS = [
    "the pause state is valid: wait start <= last busy frame <= now; a pause's end is wait_start + wait_time_ms/1000 (+ the random extension chosen in _resume_sending)",
    "'never resumes early' is decided on exact integer arithmetic over the clock ticks with a tolerance of 1 microsecond for the float rounding of (now - start) * 1000 in the code",
]
EXPLANATION = "C27: the real handle_routing_busy / _resume_sending / throttle / send_cemi run on symbolic clock readings, wait times and pause states; asyncio.create_task is an inert handle and awaits complete immediately while being recorded (symaio)."
INTERESTING = ["busy-first", "busy-extend", "busy-discard", "resume", "send"]
REQUIRED_REACH = ["busy-first", "busy-extend", "busy-discard", "resume", "send"]

TICK = 2.0 ** -10
TS = 1000.0


class FakeEvent:
    def __init__(self, log, is_set=True):
        self.log, self._set = log, is_set

    def set(self):
        self._set = True
        self.log.append(("ready.set",))

    def clear(self):
        self._set = False
        self.log.append(("ready.clear",))

    def is_set(self):
        return self._set

    def wait(self):
        from symx import aio
        return aio.Ready(value=True, hook=lambda: self.log.append(("ready.wait", self._set)))


def jobs(tier, seed):
    out = []
    for pausing in (False, True):
        for via in ("direct", "frame"):
            out.append(dict(name=f"busy-{'pausing' if pausing else 'idle'}-{via}", kind="busy", pausing=pausing, via=via, tier=tier, cost=30))
    out.append(dict(name="resume", kind="resume", tier=tier, cost=20))
    for ready in (True, False):
        out.append(dict(name=f"send-ready{ready}", kind="send", ready=ready, tier=tier, cost=10))
    return out


def run_job(job, rep):
    import types
    import z3
    from symx import aio, core, fp
    from vx.harness import trace_functions
    import xknx.io.routing as rm
    from xknx.knxip import RoutingBusy

    fp.MODE["mode"] = "exact"
    core.QUERY_TIMEOUT_MS[0] = 60000
    quick = job["tier"] == "quick"
    DB = 12 if quick else 16
    KNOW = [0, 1, 10, 11, 103, 1024, 4095] if quick else [0, 1, 2, 10, 11, 103, 1000, 1024, 4095, 20000, 65535]
    WMAX = 65535
    quiet = types.SimpleNamespace(debug=lambda *a, **k: None, warning=lambda *a, **k: None, info=lambda *a, **k: None)
    rm.logger = quiet

    def tick_float(d):
        z = z3.fpAdd(fp.RNE, z3.FPVal(TS, fp.F64), z3.fpMul(fp.RNE, z3.fpSignedToFP(fp.RNE, z3.Extract(DB, 0, d.z), fp.F64), z3.FPVal(TICK, fp.F64)))
        return fp.SymFloat(z, (TS, TS + (1 << DB) * TICK))

    def fp_same(a, b):
        za, zb = fp.fval(a), fp.fval(b)
        if za is None or zb is None:
            return False
        if z3.simplify(za).eq(z3.simplify(zb)):
            return True
        return core.mk_bool(z3.fpEQ(za, zb))

    def mk_fc(log, loop_time, ready=True):
        fc = rm._RoutingFlowControl.__new__(rm._RoutingFlowControl)
        fc._last_busy_frame_time = 0.0
        fc._last_sent_routing_indication_time = 0.0
        fc._loop = types.SimpleNamespace(time=loop_time)
        fc._ready = FakeEvent(log, ready)
        fc._received_busy_frames = 0
        fc._timer_task = None
        fc._wait_start_time = None
        fc._wait_time_ms = 0
        return fc

    if job["kind"] == "busy":
        pausing = job["pausing"]

        def run(c):
            log = []
            rm.asyncio = aio.asyncio_shim(log)
            # the clock readings are forked over a small set (the float multiplications then fold to constants); the wait times,
            # whose boundary decides accept/discard, stay symbolic
            k_now = core.concretize(c.fresh_int("k_now_i", 0, len(KNOW) - 1))
            k_now = KNOW[k_now]
            k_ws = 0                                     # the running pause started at the reference instant 1000.0 s
            deltas = sorted({d for d in (0, 10, 11, 500, k_now) if d <= k_now})
            k_lb = k_now - deltas[core.concretize(c.fresh_int("delta_i", 0, len(deltas) - 1))]
            w0 = c.fresh_int("w0", 0, WMAX)
            n0 = c.fresh_int("n0", 0, 50)
            w = c.fresh_int("w", 0, WMAX)
            reads = []

            def loop_time():
                reads.append(1)
                return TS + k_now * TICK
            fc = mk_fc(log, loop_time)
            old_task = None
            if pausing:
                fc._wait_start_time = TS
                fc._wait_time_ms = w0
                fc._last_busy_frame_time = TS + k_lb * TICK
                fc._received_busy_frames = n0
                old_task = aio.InertTask(log)
                fc._timer_task = old_task
                fc._ready._set = False
            c.notes.update(k_now=k_now, k_ws=k_ws, k_lb=k_lb, w0=w0, n0=n0, w=w)
            before = len(log)
            busy = RoutingBusy(wait_time=w)
            if job["via"] == "direct":
                f = lambda: fc.handle_routing_busy(busy)
            else:
                from xknx.knxip import KNXIPFrame
                r = rm.Routing.__new__(rm.Routing)
                r._flow_control = fc
                f = lambda: r._handle_frame(KNXIPFrame.init_from_body(busy), None, None)
            trace_functions(f, rep) if not rep.functions else f()
            return fc, log[before:], old_task

        def judge(pr):
            c = pr.ctx
            if pr.kind in ("unsupported", "timeout"):
                rep.inconcl(f"{job['name']}: {pr.kind} {pr.value}"); return
            n = c.notes
            m = c.current_model()
            mv = lambda mm, key: core.model_val(mm, n[key])
            mcase = lambda mm: dict(kind="busy", pausing=pausing, via=job["via"], now=TS + mv(mm, "k_now") * TICK, wait_start=TS,
                                    last_busy=TS + mv(mm, "k_lb") * TICK, wait_ms=mv(mm, "w0"), counter=mv(mm, "n0"), busy_wait_ms=mv(mm, "w"))
            case = mcase(m)
            if pr.kind == "raise":
                rep.ob("refuted", f"raises:busy:{type(pr.value).__name__}", case, repr(pr.value)); return
            fc, events, old_task = pr.value
            created = events.count(("create_task",)) - 0
            cancelled = events.count(("task.cancel",))
            accepted = created == 1
            # exact arithmetic in units of 1/(1000*1024) s
            now_u = n["k_now"] * 1000
            end0_u = n["k_ws"] * 1000 + n["w0"] * 1024
            req_u = now_u + n["w"] * 1024
            conds = []
            if fc._ready.is_set():
                rep.ob("refuted", "ready-not-cleared", case, "busy frame left the ready flag set"); return
            if not pausing:
                rep.reach["busy-first"] += 1
                ok = accepted and cancelled == 0 and fc._wait_time_ms is n["w"] and fc._received_busy_frames == 0
                conds.append(("first-busy-frame-state", ok and fc._wait_start_time == TS + n["k_now"] * TICK))
            else:
                inc = n["n0"] + 1 if (n["k_now"] - n["k_lb"]) * 1000 > 10 * 1024 else n["n0"]          # more than 10 ms since the previous busy frame
                conds.append(("busy-counter", fc._received_busy_frames == inc))
                if accepted:
                    rep.reach["busy-extend"] += 1
                    conds.append(("pause-shortened", req_u + 1024 >= end0_u))                              # 1024 units = 1 ms/1000 = 1 us tolerance
                    ok = cancelled == 1 and old_task.cancelled_ and fc._wait_time_ms is n["w"]
                    conds.append(("pause-not-rebased", ok and fc._wait_start_time == TS + n["k_now"] * TICK))
                else:
                    rep.reach["busy-discard"] += 1
                    conds.append(("needed-extension-discarded", end0_u + 1024 >= req_u))
                    ok = created == 0 and cancelled == 0 and fc._wait_time_ms is n["w0"] and fc._timer_task is old_task
                    conds.append(("discard-changed-state", ok and fc._wait_start_time == TS))
            conds.append(("last-busy-time", fc._last_busy_frame_time == TS + n["k_now"] * TICK))
            st, mm = c.prove(core.sym_and(*[x for _, x in conds]))
            if st == "proved":
                for sig, _ in conds:
                    rep.ob("proved", sig, case, "")
            else:
                for sig, cond in conds:
                    st, mm = c.prove(cond)
                    rep.ob(st, sig, mcase(mm) if mm is not None else case, "")
            rep.sample(dict(job=job["name"], witness=case), limit=1)
        _, st = core.explore(run, on_path=judge, stop=rep.enough, timeout=400, path_timeout=120)
        rep.add_stats(st)
        return

    if job["kind"] == "resume":
        NMAX = 8 if quick else 40

        def run(c):
            log = []
            rm.asyncio = aio.asyncio_shim(log)
            j = c.fresh_int("rand16", 0, (1 << 16) - 1)          # random.random() = j * 2^-16
            r = fp.SymFloat(z3.fpMul(fp.RNE, z3.fpSignedToFP(fp.RNE, z3.Extract(16, 0, j.z), fp.F64), z3.FPVal(2.0 ** -16, fp.F64)), (0.0, 1.0))
            rm.random = types.SimpleNamespace(random=lambda: r)
            fc = mk_fc(log, lambda: 0.0, ready=False)
            WS = [0, 1, 100, 999, 4095, 65535]
            w0 = WS[core.concretize(c.fresh_int("w0_i", 0, len(WS) - 1))]
            n0 = core.concretize(c.fresh_int("n0", 0, NMAX))
            fc._wait_time_ms, fc._received_busy_frames = w0, n0
            fc._wait_start_time = 1.0
            c.notes.update(w0=w0, n0=n0, r=r, j=j)
            f = lambda: aio.drive(fc._resume_sending())
            trace_functions(f, rep) if not rep.functions else f()
            return fc, log

        def judge(pr):
            c = pr.ctx
            if pr.kind in ("unsupported", "timeout"):
                rep.inconcl(f"resume: {pr.kind} {pr.value}"); return
            n = c.notes
            m = c.current_model()
            mcase = lambda mm: dict(kind="resume", wait_ms=core.model_val(mm, n["w0"]), counter=core.model_val(mm, n["n0"]), rand=core.model_val(mm, n["j"]) * 2.0 ** -16)
            case = mcase(m)
            if pr.kind == "raise":
                rep.ob("refuted", f"raises:resume:{type(pr.value).__name__}", case, repr(pr.value)); return
            fc, log = pr.value
            rep.reach["resume"] += 1
            kinds = [e[0] for e in log]
            if not kinds or kinds[0] != "sleep" or "ready.set" not in kinds or kinds.index("ready.set") != 1:
                rep.ob("refuted", "resume-order", case, repr(kinds[:4])); return
            nn = case["counter"]
            sleeps = [e[1] for e in log if e[0] == "sleep"]
            if len(sleeps) != 2 + nn or fc._received_busy_frames != 0 or fc._wait_start_time is not None or not fc._ready.is_set():
                rep.ob("refuted", "resume-fade-out", case, f"{len(sleeps)} sleeps, counter {fc._received_busy_frames}, wait_start {fc._wait_start_time}"); return
            first = sleeps[0]
            base = n["w0"] / 1000
            st, mm = c.prove(core.sym_and(first >= base, first <= base + nn * 0.05 + 1e-9))
            rep.ob(st, "resume-delay", mcase(mm) if mm is not None else case, "first sleep outside [wait/1000, wait/1000 + n*50 ms]")
            rep.sample(dict(job="resume", witness=case), limit=1)
        _, st = core.explore(run, on_path=judge, stop=rep.enough, timeout=400, path_timeout=120)
        rep.add_stats(st)
        return

    if job["kind"] == "send":
        def run(c):
            from xknx.cemi import CEMIFrame, CEMILData, CEMIMessageCode
            from xknx.telegram import GroupAddress, Telegram
            from xknx.telegram.apci import GroupValueWrite
            from xknx.dpt import DPTBinary
            log = []
            rm.asyncio = aio.asyncio_shim(log)
            k_last = 0                                   # the previous indication went out at the reference instant 1000.0 s
            k_now = c.fresh_int("k_now", 0, (1 << DB) - 1)
            k_after = c.fresh_int("k_after", 0, (1 << DB) - 1)
            c.add(k_now <= k_after)
            seq = [k_now, k_after]

            def loop_time():
                k = seq.pop(0) if len(seq) > 1 else seq[0]
                log.append(("time",))
                return tick_float(k)
            fc = mk_fc(log, loop_time, ready=job["ready"])
            fc._last_sent_routing_indication_time = TS
            r = rm.Routing.__new__(rm.Routing)
            r._flow_control = fc
            r.transport = types.SimpleNamespace(send=lambda frame: log.append(("send", frame)))
            r.cemi_received_callback = lambda raw: log.append(("confirm", raw))
            c.notes.update(k_last=k_last, k_now=k_now, k_after=k_after)
            cemi = CEMIFrame(code=CEMIMessageCode.L_DATA_REQ, data=CEMILData.init_from_telegram(Telegram(destination_address=GroupAddress("1/2/3"), payload=GroupValueWrite(DPTBinary(1)))))
            f = lambda: aio.drive(r.send_cemi(cemi))
            trace_functions(f, rep) if not rep.functions else f()
            return fc, log

        def judge(pr):
            c = pr.ctx
            if pr.kind in ("unsupported", "timeout"):
                rep.inconcl(f"send: {pr.kind} {pr.value}"); return
            n = c.notes
            m = c.current_model()
            mcase = lambda mm: dict(kind="send", ready=job["ready"], last_sent=TS, now=TS + core.model_val(mm, n["k_now"]) * TICK,
                                    after=TS + core.model_val(mm, n["k_after"]) * TICK)
            case = mcase(m)
            if pr.kind == "raise":
                rep.ob("refuted", f"raises:send:{type(pr.value).__name__}", case, repr(pr.value)); return
            fc, log = pr.value
            rep.reach["send"] += 1
            kinds = [e[0] for e in log if e[0] != "time"]
            sleeps = [e for e in log if e[0] == "sleep"]
            want_tail = ["ready.wait", "send", "confirm"]
            if kinds[-3:] != want_tail or kinds.count("send") != 1 or kinds.count("confirm") != 1 or len(sleeps) > 1 or (sleeps and kinds[0] != "sleep"):
                rep.ob("refuted", "send-sequence", case, repr(kinds)); return
            from xknx.knxip import RoutingIndication
            frame = next(e[1] for e in log if e[0] == "send")
            conf = next(e[1] for e in log if e[0] == "confirm")
            if not isinstance(frame.body, RoutingIndication) or frame.body.raw_cemi[0] != 0x29 or conf[0] != 0x2E:
                rep.ob("refuted", "send-frames", case, f"{frame!r} / {conf!r}"); return
            gap_u = (n["k_now"] - n["k_last"]) * 1000          # units of 1/(1000*1024) s; 20 ms = 20*1024
            if sleeps:
                d = sleeps[0][1]
                exact = 0.02 - (n["k_now"] - n["k_last"]) * TICK
                cond = core.sym_and(gap_u < 20 * 1024, d >= exact - 1e-9, d <= exact + 1e-9)
            else:
                cond = gap_u >= 20 * 1024 - 1
            stamp = fp_same(fc._last_sent_routing_indication_time, tick_float(n["k_after"]))
            st, mm = c.prove(core.sym_and(cond, stamp))
            rep.ob(st, "indication-spacing", mcase(mm) if mm is not None else case, "sleep before sending differs from 20 ms minus the time since the last indication, or the send time is not recorded")
            rep.sample(dict(job=job["name"], witness=case), limit=1)
        _, st = core.explore(run, on_path=judge, stop=rep.enough, timeout=300, path_timeout=120)
        rep.add_stats(st)


def replay(case):
    import asyncio
    import types
    import xknx.io.routing as rm
    from xknx.knxip import RoutingBusy

    kind = case["kind"]

    async def go():
        clock = [0.0]
        fc = rm._RoutingFlowControl()
        fc._loop = types.SimpleNamespace(time=lambda: clock[0])
        if kind == "busy":
            created = []
            real_create = asyncio.create_task

            if case["pausing"]:
                fc._wait_start_time = case["wait_start"]
                fc._wait_time_ms = case["wait_ms"]
                fc._last_busy_frame_time = case["last_busy"]
                fc._received_busy_frames = case["counter"]
                fc._ready.clear()
                old = real_create(asyncio.sleep(3600))
                fc._timer_task = old
            else:
                old = None
            clock[0] = case["now"]
            try:
                fc.handle_routing_busy(RoutingBusy(wait_time=case["busy_wait_ms"]))
            except Exception as e:  # noqa: BLE001
                return True, f"handle_routing_busy raised {e!r}"
            new = fc._timer_task
            accepted = new is not old
            end0 = case["wait_start"] + case["wait_ms"] / 1000 if case["pausing"] else None
            req = case["now"] + case["busy_wait_ms"] / 1000
            res = None
            if fc._ready.is_set():
                res = "ready flag still set after a busy frame"
            elif not case["pausing"]:
                if not accepted or fc._wait_time_ms != case["busy_wait_ms"] or fc._wait_start_time != case["now"] or fc._received_busy_frames != 0:
                    res = f"first busy frame: wait {fc._wait_time_ms} from {fc._wait_start_time}, counter {fc._received_busy_frames}"
            else:
                inc = case["counter"] + (1 if (case["now"] - case["last_busy"]) > 0.01 else 0)
                if fc._received_busy_frames != inc:
                    res = f"busy counter {fc._received_busy_frames}, expected {inc}"
                elif accepted and (req + 1e-6 < end0 or fc._wait_start_time != case["now"] or fc._wait_time_ms != case["busy_wait_ms"]):
                    res = f"pause [{case['wait_start']}, {end0}] replaced by wait {fc._wait_time_ms} ms counted from {fc._wait_start_time} (frame at {case['now']} asks until {req})"
                elif not accepted and (end0 + 1e-6 < req or fc._wait_start_time != case["wait_start"] or fc._wait_time_ms != case["wait_ms"]):
                    res = f"busy frame asking until {req} discarded although the pause ends at {end0}"
            if fc._last_busy_frame_time != case["now"] and res is None:
                res = "last busy frame time not recorded"
            for t in (old, new):
                if t is not None:
                    t.cancel()
            return (res is not None), res or "ok"
        if kind == "resume":
            sleeps = []
            real_sleep = asyncio.sleep

            async def fake_sleep(d):
                sleeps.append((d, fc._ready.is_set()))
                await real_sleep(0)
            saved_sleep, saved_random = rm.asyncio.sleep, rm.random.random
            rm.asyncio.sleep = fake_sleep
            rm.random.random = lambda: case["rand"]
            try:
                fc._ready.clear()
                fc._wait_time_ms, fc._received_busy_frames, fc._wait_start_time = case["wait_ms"], case["counter"], 1.0
                await fc._resume_sending()
            finally:
                rm.asyncio.sleep, rm.random.random = saved_sleep, saved_random
            base = case["wait_ms"] / 1000
            if not sleeps or sleeps[0][1] or not (base <= sleeps[0][0] <= base + case["counter"] * 0.05 + 1e-9) or len(sleeps) != 2 + case["counter"] or fc._received_busy_frames != 0 or not fc._ready.is_set():
                return True, f"resume: sleeps {sleeps[:3]} (wait {base} s), counter {fc._received_busy_frames}"
            return False, "ok"
        # send
        from xknx.cemi import CEMIFrame, CEMILData, CEMIMessageCode
        from xknx.dpt import DPTBinary
        from xknx.telegram import GroupAddress, Telegram
        from xknx.telegram.apci import GroupValueWrite
        log = []
        real_sleep = asyncio.sleep

        async def fake_sleep(d):
            log.append(("sleep", d, fc._ready.is_set()))
            if True:
                # adversarial schedule: a RoutingBusy arrives while the sender sleeps for the 20 ms spacing
                fc._ready.clear()
                asyncio.get_running_loop().call_later(0.01, fc._ready.set)
            await real_sleep(0)
        saved_sleep = rm.asyncio.sleep
        rm.asyncio.sleep = fake_sleep
        try:
            seq = [case["now"], case["after"]]
            fc._loop = types.SimpleNamespace(time=lambda: seq.pop(0) if len(seq) > 1 else seq[0])
            fc._last_sent_routing_indication_time = case["last_sent"]
            r = rm.Routing.__new__(rm.Routing)
            r._flow_control = fc
            r.transport = types.SimpleNamespace(send=lambda frame: log.append(("send", fc._ready.is_set())))
            r.cemi_received_callback = lambda raw: log.append(("confirm", raw[0]))
            if not case["ready"] and case["now"] - case["last_sent"] >= 0.02:
                fc._ready.clear()
                asyncio.get_running_loop().call_later(0.01, fc._ready.set)
            cemi = CEMIFrame(code=CEMIMessageCode.L_DATA_REQ, data=CEMILData.init_from_telegram(Telegram(destination_address=GroupAddress("1/2/3"), payload=GroupValueWrite(DPTBinary(1)))))
            await asyncio.wait_for(r.send_cemi(cemi), 2)
        finally:
            rm.asyncio.sleep = saved_sleep
        kinds = [e[0] for e in log]
        gap = case["now"] - case["last_sent"]
        want_sleep = gap < 0.02
        sl = [e for e in log if e[0] == "sleep"]
        if kinds.count("send") != 1 or kinds.count("confirm") != 1 or kinds[-2:] != ["send", "confirm"] or bool(sl) != want_sleep or (sl and abs(sl[0][1] - (0.02 - gap)) > 1e-9):
            return True, f"send_cemi: {log} with {gap * 1000:.3f} ms since the last indication"
        if not next(e for e in log if e[0] == "send")[1]:
            return True, "RoutingIndication sent while the ready flag was cleared"
        if fc._last_sent_routing_indication_time != case["after"]:
            return True, "send time not recorded"
        return False, "ok"
    return asyncio.run(go())
