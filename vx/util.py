"""Small helpers shared by property harnesses."""
from __future__ import annotations

import dataclasses
import enum


def exc_site(e):
    """'<ExcType>@<file>:<function>' for the innermost /xknx/ frame of exception e (stable across line shifts)."""
    tb = e.__traceback__
    site = "?"
    while tb is not None:
        co = tb.tb_frame.f_code
        if "/xknx/" in co.co_filename:
            site = co.co_filename.split("/xknx/", 1)[1] + ":" + co.co_qualname
        tb = tb.tb_next
    return f"{type(e).__name__}@{site}"


def describe(x):
    """Concrete/engine-independent descriptor of an outcome, used to compare symbolic paths with real runs."""
    if isinstance(x, BaseException):
        return "raise:" + type(x).__name__
    return "ok:" + type(x).__name__


def sym_eq(a, b):
    """Structural equality of two values as a z3-decidable SymBool/bool (no forking): dataclasses, enums, addresses,
    bytes, ints, tuples/lists.  Falls back to == (which may fork) for unknown types."""
    from symx import core
    if type(a) is not type(b) and not (isinstance(a, (int, core.SymInt, core.SymBool, bool)) and isinstance(b, (int, core.SymInt, core.SymBool, bool))) \
            and not (isinstance(a, (bytes, bytearray, core.SymBytes)) and isinstance(b, (bytes, bytearray, core.SymBytes))):
        return False
    if isinstance(a, enum.Enum):
        return a is b
    if isinstance(a, (core.SymBytes,)) or isinstance(b, core.SymBytes):
        x = a if isinstance(a, core.SymBytes) else core.SymBytes(list(a))
        return x == b
    if dataclasses.is_dataclass(a) and not isinstance(a, type):
        parts = [sym_eq(getattr(a, f.name), getattr(b, f.name)) for f in dataclasses.fields(a) if f.compare]
        return core.sym_and(*parts) if parts else True
    if isinstance(a, (tuple, list)):
        if len(a) != len(b):
            return False
        parts = [sym_eq(x, y) for x, y in zip(a, b)]
        return core.sym_and(*parts) if parts else True
    if hasattr(a, "raw") and type(a).__name__.endswith("Address"):
        return sym_eq(a.raw, b.raw)
    if hasattr(a, "__slots__") and not isinstance(a, (int, str, bytes, float)) and type(a).__module__.startswith("xknx"):
        names = [n for c in type(a).__mro__ for n in getattr(c, "__slots__", ())]
        if names:
            return core.sym_and(*[sym_eq(getattr(a, n, None), getattr(b, n, None)) for n in names])
    if hasattr(a, "__dict__") and type(a).__module__.startswith("xknx") and not callable(a):
        ka = vars(a)
        return core.sym_and(*[sym_eq(v, getattr(b, k, None)) for k, v in ka.items()]) if ka else True
    r = a == b
    return r


def hexs(b):
    return bytes(b).hex()
