"""C35 State updater reads exactly when its tracking policy says (partial)."""
from __future__ import annotations

ID = "C35"
BOUNDS = {
    "quick": "(a) every history of 4 operations out of {connection state -> CONNECTED / CONNECTING / DISCONNECTED (real ConnectionManager), a state telegram for the 'expire', the 'every' or the 'init' remote value (through the real RemoteValue.process, the same payload every time), unregister / register of the 'expire' value (only when registered / not registered)} on the real StateUpdater/_StateTracker code with asyncio.create_task replaced by inert handles tagged with their tracker and coroutine: after every operation each tracker's live handle (none / initial read / interval timer) equals the reference model; (b) the tracker coroutines _start_init and _update_loop and the read wrapper read_state_mutex stepped (symaio): one read per start, the interval sleep is 60 * minutes before every further read, 'init' trackers start no timer, the semaphore is released after a read",
    "thorough": "as quick with histories of 5 operations",
}
OUTSIDE = "the event loop: the passage of the interval, two reads overlapping (the bound of two parallel reads is asyncio.Semaphore's, including what happens when a waiting read is cancelled), cancellation delivery; parse_tracker_options (text parsing of the option strings)"
ASSUMPTIONS = ["reference model per tracker: nothing alive while the updater is stopped (not CONNECTED); a (re)connection starts exactly one initial read per registered value; a state telegram replaces whatever an 'expire' tracker has alive by a fresh interval timer and leaves 'every'/'init' trackers alone; unregistering cancels and forgets the tracker; registering while connected starts an initial read"]
EXPLANATION = "C35: real StateUpdater, _StateTracker, ConnectionManager and RemoteValue.process over every bounded history; asyncio tasks are inert tagged handles, so which read/timer is alive per tracker is observable after each operation."
INTERESTING = ["history", "body"]
REQUIRED_REACH = ["history", "body"]

OPS = ["CONNECTED", "CONNECTING", "DISCONNECTED", "tg-expire", "tg-every", "tg-init", "unreg-expire", "reg-expire"]
KINDS = {"expire": "expire 30", "every": "every 10", "init": "init"}
GAS = {"expire": "1/1/1", "every": "1/1/2", "init": "1/1/3"}


def jobs(tier, seed):
    k = 4 if tier == "quick" else 5
    out = [dict(name=f"history-first-{op}", kind="history", first=i, k=k, cost=10) for i, op in enumerate(OPS)]
    out.append(dict(name="tracker-bodies", kind="body", cost=5))
    return out


def setup(log, handles):
    import types
    from symx import aio
    import xknx.core.state_updater as sum_
    import xknx.remote_value.remote_value as rvmod
    from xknx import XKNX

    def create_task(coro, name=None):
        owner = coro.cr_frame.f_locals.get("self") if getattr(coro, "cr_frame", None) is not None else None
        what = coro.cr_code.co_name
        h = aio.InertTask(log, coro)
        h.owner, h.what = owner, what
        handles.append(h)
        return h
    sum_.asyncio = aio.asyncio_shim(log, extra=dict(create_task=create_task, shield=lambda x: x, Semaphore=__import__("asyncio").Semaphore))
    quiet = types.SimpleNamespace(debug=lambda *a, **k: None, warning=lambda *a, **k: None, info=lambda *a, **k: None)
    sum_.logger = quiet
    rvmod.logger = quiet
    xk = XKNX()
    return xk, sum_


def mk_values(xk):
    from xknx.remote_value import RemoteValueSwitch
    rvs = {}
    for k, opt in KINDS.items():
        rvs[k] = RemoteValueSwitch(xk, group_address_state=GAS[k], sync_state=opt)
        rvs[k].register_state_updater()
    return rvs


def apply_op(xk, rvs, op):
    from xknx.core import XknxConnectionState
    from xknx.dpt import DPTBinary
    from xknx.telegram import GroupAddress, Telegram, TelegramDirection
    from xknx.telegram.apci import GroupValueWrite
    if op.startswith("tg-"):
        k = op[3:]
        rvs[k].process(Telegram(destination_address=GroupAddress(GAS[k]), direction=TelegramDirection.INCOMING, payload=GroupValueWrite(DPTBinary(1))))
    elif op == "unreg-expire":
        rvs["expire"].unregister_state_updater()
    elif op == "reg-expire":
        rvs["expire"].register_state_updater()
    else:
        xk.connection_manager.connection_state_changed(XknxConnectionState[op])


def reference(history):
    alive = {"expire": None, "every": None, "init": None}      # None / "_start_init" / "_update_loop"
    registered = {"expire": True, "every": True, "init": True}
    started = False
    state = "DISCONNECTED"
    out = []
    for op in history:
        if op.startswith("tg-"):
            k = op[3:]
            if started and registered[k] and k == "expire":
                alive[k] = "_update_loop"
        elif op == "unreg-expire":
            registered["expire"] = False
            alive["expire"] = None
        elif op == "reg-expire":
            registered["expire"] = True
            alive["expire"] = "_start_init" if started else None
        else:
            if op != state:
                state = op
                if op == "CONNECTED":
                    if not started:
                        started = True
                        for k in alive:
                            alive[k] = "_start_init" if registered[k] else None
                elif started:
                    started = False
                    for k in alive:
                        alive[k] = None
        out.append(dict(alive))
    return out


def observe(rvs, trackers, handles):
    res = {}
    for k, tr in trackers.items():
        live = [h for h in handles if h.owner is tr and not h.cancelled_]
        res[k] = None if not live else (live[0].what if len(live) == 1 else f"{len(live)} tasks")
    return res


def run_job(job, rep):
    import types
    from symx import aio, core
    from vx.harness import trace_functions

    if job["kind"] == "history":
        K = job["k"]

        def run(c):
            log, handles = [], []
            xk, sm = setup(log, handles)
            rvs = mk_values(xk)
            xk.state_updater.start()
            history = [OPS[job["first"]]] + [OPS[core.concretize(c.fresh_int(f"op{i}", 0, len(OPS) - 1))] for i in range(1, K)]
            c.notes["history"] = history
            seen = []
            all_trackers = {}
            for op in history:
                if (op == "unreg-expire") != (id(rvs["expire"]) in xk.state_updater._workers) and op in ("unreg-expire", "reg-expire"):
                    seen.append("skip")        # unregistering an unknown value / registering a registered one: not legal operations
                    continue
                f = lambda: apply_op(xk, rvs, op)
                trace_functions(f, rep) if not rep.functions else f()
                for k, rv in rvs.items():
                    tr = xk.state_updater._workers.get(id(rv))
                    if tr is not None:
                        all_trackers.setdefault(k, []).append(tr) if tr not in all_trackers.get(k, []) else None
                cur = {}
                for k in rvs:
                    live = [h for h in handles if any(h.owner is tr for tr in all_trackers.get(k, [])) and not h.cancelled_]
                    cur[k] = None if not live else (live[0].what if len(live) == 1 else f"{len(live)} tasks")
                seen.append(cur)
            return seen

        def judge(pr):
            c = pr.ctx
            case = dict(kind="history", history=c.notes.get("history"))
            if pr.kind != "ok":
                rep.ob("refuted", f"history-raises:{type(pr.value).__name__}", case, repr(pr.value)); return
            seen = pr.value
            rep.reach["history"] += 1
            # unregistering an unknown value (KeyError by contract) and registering a registered one are not legal operations: dropped from the model too
            hist = [op for op, s in zip(case["history"], seen) if s != "skip"]
            want = reference(hist)
            got = [s for s in seen if s != "skip"]
            if got != want:
                i = next(i for i, (a, b) in enumerate(zip(got, want)) if a != b)
                rep.ob("refuted", f"tracker-state:{hist[i]}", case, f"after operation {i} ({hist[i]}): alive per tracker {got[i]}, expected {want[i]}"); return
            rep.obligations += 1; rep.discharged += 1
            rep.sample(dict(witness=case), limit=1)
        _, st = core.explore(run, on_path=judge, stop=rep.enough, timeout=600)
        rep.add_stats(st)
        return

    def run(c):
        log, handles = [], []
        xk, sm = setup(log, handles)
        rvs = mk_values(xk)
        which = ["expire", "every", "init"][core.concretize(c.fresh_int("which", 0, 2))]
        part = ["init", "loop", "mutex"][core.concretize(c.fresh_int("part", 0, 2))]
        c.notes.update(which=which, part=part)
        tr = xk.state_updater._workers[id(rvs[which])]
        reads = []
        rv = rvs[which]
        type(rv).read_state_saved = type(rv).read_state

        def fake_read_state(self, wait_for_result=False):
            return aio.Ready(hook=lambda: (reads.append(wait_for_result), log.append(("read",))))
        type(rv).read_state = fake_read_state
        budget = {"n": 0}

        def sleep(d):
            def hook():
                log.append(("sleep", d))
                budget["n"] += 1
                if budget["n"] > 2:
                    raise aio.Stop()
            return aio.Ready(hook=hook)
        sm.asyncio.sleep = sleep
        try:
            if part == "init":
                f = lambda: aio.drive(tr._start_init())
            elif part == "loop":
                f = lambda: aio.drive(tr._update_loop())
            else:
                f = lambda: aio.drive(tr._read_state())
            r = trace_functions(f, rep) if not rep.functions else f()
        finally:
            type(rv).read_state = type(rv).read_state_saved
        sem = xk.state_updater._semaphore._value
        return r, log, reads, sem, [h.what for h in handles if h.owner is tr and not h.cancelled_]

    def judge(pr):
        c = pr.ctx
        case = dict(kind="body", which=c.notes.get("which"), part=c.notes.get("part"))
        if pr.kind != "ok":
            rep.ob("refuted", f"body-raises:{type(pr.value).__name__}", case, repr(pr.value)); return
        (how, _), log, reads, sem, live = pr.value
        rep.reach["body"] += 1
        ev = [e for e in log if e[0] in ("sleep", "read")]
        interval = {"expire": 30, "every": 10, "init": 0}[case["which"]] * 60
        if case["part"] == "init":
            ok = ev == [("read",)] and reads == [True] and live == ([] if case["which"] == "init" else ["_update_loop"]) and how == "returned"
        elif case["part"] == "loop":
            iv = {"expire": 1800, "every": 600}.get(case["which"])
            if iv is None:
                return
            ok = ev[:4] == [("sleep", iv), ("read",), ("sleep", iv), ("read",)] and ev[4:] == [("sleep", iv)] and how == "stopped"
        else:
            ok = ev == [("read",)] and reads == [True] and sem == 2
        rep.ob("proved" if ok else "refuted", f"tracker-body:{case['part']}", case, f"{how}: {ev}, live {live}, semaphore {sem}")
    _, st = core.explore(run, on_path=judge, timeout=120)
    rep.add_stats(st)


def replay(case):
    import asyncio
    from xknx import XKNX

    async def go():
        xk = XKNX()
        rvs = mk_values(xk)
        if case["kind"] == "body":
            return True, "single-coroutine step (see detail of the symbolic run)"
        # reads are made observable (and endless) so that liveness of the initial read vs the timer can be told apart
        import xknx.core.state_updater as sm
        marks = {}

        async def never(self, wait_for_result=False):
            marks.setdefault(id(self), []).append("read")
            await asyncio.sleep(3600)
        from xknx.remote_value import RemoteValueSwitch
        saved = RemoteValueSwitch.read_state
        RemoteValueSwitch.read_state = never
        try:
            xk.state_updater.start()
            hist = []
            all_tasks = {k: [] for k in rvs}
            for step, op in enumerate(case["history"]):
                if (op == "unreg-expire") != (id(rvs["expire"]) in xk.state_updater._workers) and op in ("unreg-expire", "reg-expire"):
                    continue
                hist.append(op)
                try:
                    apply_op(xk, rvs, op)
                except Exception as e:  # noqa: BLE001
                    return True, f"{case}: operation {step} ({op}) raised {e!r}"
                for _ in range(3):
                    await asyncio.sleep(0)
                want = reference(hist)[-1]
                for k, rv in rvs.items():
                    tr = xk.state_updater._workers.get(id(rv))
                    t = tr._task if tr is not None else None
                    if t is not None and t not in all_tasks[k]:
                        all_tasks[k].append(t)
                    live = [x for x in all_tasks[k] if not x.done()]
                    names = [x.get_coro().cr_code.co_name for x in live]
                    got = None if not names else (names[0] if len(names) == 1 else f"{len(names)} tasks")
                    if got != want[k]:
                        return True, f"{case}: after operation {step} ({op}) the '{k}' tracker has {got} alive, expected {want[k]}"
            return False, "ok"
        finally:
            RemoteValueSwitch.read_state = saved
            for t in asyncio.all_tasks() - {asyncio.current_task()}:
                t.cancel()
    return asyncio.run(go())
