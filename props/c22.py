"""C22 Transports deliver stream frames once, in order, without crashing."""
from __future__ import annotations

ID = "C22"
BOUNDS = {
    "quick": "TCP: (a) any single chunk of 0..10 fully symbolic octets on an empty buffer and on a symbolic 1..5-octet buffer (buffer + chunk <= 9 octets): no exception escapes; (b) chunking invariance: streams of 1..2 frames of 8/10 octets with readable header length and otherwise symbolic header/body (service type in {CONNECTIONSTATE_RESPONSE, DISCONNECT_RESPONSE, TUNNELLING_ACK, undefined}; well-formed or malformed) followed by 0/3/7 octets of an incomplete further frame, every 2-chunk split, compared with one-chunk delivery (delivered frames and remaining buffer); (c) delivery oracle: streams of 2 frames of 8/10 octets (3 frames in the thorough tier) with readable header length, each symbolic (well-formed or malformed): delivered == the well-formed ones, in order. UDP: any datagram of 0..10 symbolic octets: no exception escapes",
    "thorough": "as quick with single chunks up to 13 octets, 3-frame streams and every 2-chunk split plus 3-chunk splits",
}
OUTSIDE = "frames of other service types inside streams (their parsing outcome class is C20's subject; the transport code does not depend on the body class); chunkings into more than 3 chunks follow by induction on the buffer state, argued not mechanised; asyncio Protocol plumbing (connection_made/lost)"
ASSUMPTIONS = [
    "in the stream-structured jobs (b), (c) status octets are restricted to {0x00, 0x21, 0xEE} (a defined success code, a defined error code, an undefined code)",
    "callbacks registered on the transport are recorders that do not raise (raising callbacks are C34's subject)",
    "a malformed frame with readable header length = first octet 0x06 and a total_length field >= 6 that does not exceed the available octets",
]
EXPLANATION = ("C22: TCPTransport.data_received_callback / UDPTransport.data_received_callback with KNXIPFrame.from_knx run on symbolic "
               "streams; z3 decides, per path, equality of delivered frames and buffers between chunkings and against the sequential reference.")
INTERESTING = ["delivered", "buffered", "skipped"]
REQUIRED_REACH = ["delivered", "buffered", "skipped"]
SVC = [0x0208, 0x020A, 0x0421, 0xFFFF]


def jobs(tier, seed):
    out = []
    top = 10 if tier == "quick" else 13
    for L in range(0, top + 1):
        out.append(dict(name=f"tcp-any-L{L}", kind="any", L=L, buf=0, cost=L))
    for b in range(1, 6):
        for L in (1, 3, 5, 7, 9):
            if b + L > (9 if tier == "quick" else 12):
                continue
            out.append(dict(name=f"tcp-any-b{b}-L{L}", kind="any", L=L, buf=b, cost=L + b))
    for L in range(0, 11):
        out.append(dict(name=f"udp-any-L{L}", kind="udp", L=L, cost=L))
    structs = [([8], 0), ([8], 3), ([10], 7), ([8, 8], 0), ([8, 10], 0), ([8, 8], 3)]
    if tier != "quick":
        structs += [([10, 8], 3), ([8, 8], 7), ([10, 10], 7), ([8, 8, 8], 0), ([10, 8, 8], 3)]
    for lens, tail in structs:
        N = sum(lens) + tail
        for k in range(1, N):
            out.append(dict(name=f"split-{'-'.join(map(str, lens))}+{tail}-k{k}", kind="split", lens=lens, tail=tail, N=N, ks=[k], cost=N * N))
        if tier != "quick" and N <= 20:
            for k1 in range(1, N, 3):
                for k2 in range(k1 + 1, N, 3):
                    out.append(dict(name=f"split-{'-'.join(map(str, lens))}+{tail}-k{k1}-{k2}", kind="split", lens=lens, tail=tail, N=N, ks=[k1, k2], cost=N * N))
    oracles = [[8, 8], [8, 10], [10, 8], [10, 10]] + ([[8, 8, 8], [8, 10, 8]] if tier != "quick" else [])
    for lens in oracles:
        out.append(dict(name="oracle-" + "-".join(map(str, lens)), kind="oracle", lens=lens, cost=1000))
    return out


def mk_tcp(rec):
    import xknx.io.transport.tcp_transport as tt
    t = tt.TCPTransport(("127.0.0.1", 3671))
    t.register_callback(lambda frame, hpai, tr: rec.append(frame))
    return t


def make_stream(c, lens, tail):
    """Stream of frames with readable header length: octet 0 = 0x06 and the length field are concrete, everything else
    symbolic (version octet, service type from a small set, body).  Followed by `tail` octets of an incomplete frame."""
    import z3
    from symx import core
    elems = []
    for fi, ln in enumerate(lens):
        fr = [6, c.fresh_int(f"f{fi}v", 0, 255), c.fresh_int(f"f{fi}s0", 0, 255), c.fresh_int(f"f{fi}s1", 0, 255), 0, ln]
        fr += [c.fresh_int(f"f{fi}b{i}", 0, 255) for i in range(ln - 6)]
        st = fr[2] * 256 + fr[3]
        c.add(z3.Or(*[core.zint(st) == v for v in SVC]))
        # status octets (ErrorCode lookups fork per member): one defined ok, one defined error, one undefined code
        for so in (7, 9):
            if so < ln:
                c.add(z3.Or(*[core.zint(fr[so]) == v for v in (0x00, 0x21, 0xEE)]))
        elems += fr
    if tail:
        t = [6] + [c.fresh_int(f"t{i}", 0, 255) for i in range(1, tail)]
        if tail >= 6:
            t[4], t[5] = 0, tail + 5
        elems += t
    return core.SymBytes(elems)


def run_job(job, rep):
    import z3
    from symx import core
    from vx.harness import trace_functions
    from vx.util import exc_site, sym_eq
    import xknx.knxip.knxip as kk
    from xknx.exceptions import CouldNotParseKNXIP, IncompleteKNXIPFrame

    kind = job["kind"]
    if kind in ("any", "udp"):
        L = job["L"]
        first = [True]

        def run(c):
            raw = c.fresh_bytes("b", L)
            buf = c.fresh_bytes("t", job.get("buf", 0))
            c.notes.update(raw=raw, buf=buf)
            rec = []
            if kind == "udp":
                import xknx.io.transport.udp_transport as ut
                t = ut.UDPTransport(local_addr=("127.0.0.1", 0), remote_addr=("127.0.0.1", 3671))
                t.register_callback(lambda frame, hpai, tr: rec.append(frame))
                f = lambda: t.data_received_callback(raw, ("192.168.1.2", 3671))
            else:
                t = mk_tcp(rec)
                t._buffer = buf if len(buf) else b""
                f = lambda: t.data_received_callback(raw)
            if first[0]:
                first[0] = False
                trace_functions(f, rep)
            else:
                f()
            return rec, (t._buffer if kind != "udp" else b"")

        def judge(pr):
            c = pr.ctx
            if pr.kind == "unsupported":
                rep.inconcl(f"{job['name']}: {pr.value}"); return
            m = c.current_model()
            case = dict(kind=kind, chunks=[c.notes["raw"].concrete(m).hex()], buffer=c.notes["buf"].concrete(m).hex())
            if pr.kind == "timeout":
                rep.violation("hang:" + kind, case, "callback did not return"); return
            if pr.kind == "raise":
                rep.ob("refuted", f"exception-escapes:{kind}:{exc_site(pr.value)}", case, repr(pr.value)); return
            rec, buf = pr.value
            rep.reach["delivered" if rec else ("buffered" if len(buf) else "skipped")] += 1
            rep.obligations += 1; rep.discharged += 1
            rep.sample(dict(job=job["name"], witness=case, delivered=len(rec)), limit=1)

        _, st = core.explore(run, on_path=judge, stop=rep.enough, timeout=600, path_timeout=25)
        rep.add_stats(st)
        return

    if kind == "split":
        N, ks = job["N"], job["ks"]

        def run(c):
            raw = make_stream(c, job["lens"], job["tail"])
            c.notes.update(raw=raw)
            rec1, rec2 = [], []
            t1 = mk_tcp(rec1)
            t1.data_received_callback(raw)
            t2 = mk_tcp(rec2)
            prev = 0
            for k in ks + [N]:
                t2.data_received_callback(raw[prev:k])
                prev = k
            return rec1, t1._buffer, rec2, t2._buffer

        def judge(pr):
            c = pr.ctx
            if pr.kind == "unsupported":
                rep.inconcl(f"{job['name']}: {pr.value}"); return
            m = c.current_model()
            raw = c.notes["raw"]
            r = raw.concrete(m)
            cuts = [0] + ks + [N]
            case = dict(kind="split", chunks=[r[cuts[i]:cuts[i + 1]].hex() for i in range(len(cuts) - 1)], buffer="")
            if pr.kind in ("raise", "timeout"):
                rep.ob("refuted", f"exception-escapes:tcp:{exc_site(pr.value) if pr.kind == 'raise' else 'hang'}", case, repr(pr.value)); return
            rec1, b1, rec2, b2 = pr.value
            rep.reach["delivered" if rec1 else ("buffered" if len(b1) else "skipped")] += 1
            if len(rec1) != len(rec2):
                rep.ob("refuted", "chunking-changes-delivery", case, f"one chunk delivers {len(rec1)} frames, split delivers {len(rec2)}"); return
            eq = core.sym_and(*[sym_eq(a, b) for a, b in zip(rec1, rec2)], len(b1) == len(b2), (b1 == b2) if len(b1) == len(b2) else False)
            st, mm = c.prove(eq)
            if mm is not None:
                r = raw.concrete(mm)
                case = dict(kind="split", chunks=[r[cuts[i]:cuts[i + 1]].hex() for i in range(len(cuts) - 1)], buffer="")
            rep.ob(st, "chunking-changes-delivery", case, "delivered frames or buffer differ between chunkings")
            rep.sample(dict(job=job["name"], witness=case, delivered=len(rec1)), limit=1)

        _, st = core.explore(run, on_path=judge, stop=rep.enough, timeout=600, path_timeout=25)
        rep.add_stats(st)
        return

    lens = job["lens"]
    N = sum(lens)

    def run(c):
        raw = make_stream(c, lens, 0)
        c.notes.update(raw=raw)
        exp = []
        pos = 0
        for ln in lens:
            fr = raw[pos:pos + ln]
            try:
                f, rest = kk.KNXIPFrame.from_knx(fr)
                exp.append(f)
            except CouldNotParseKNXIP:
                pass
            pos += ln
        rec = []
        t = mk_tcp(rec)
        t.data_received_callback(raw)
        return exp, rec, t._buffer

    def judge(pr):
        c = pr.ctx
        if pr.kind == "unsupported":
            rep.inconcl(f"{job['name']}: {pr.value}"); return
        m = c.current_model()
        raw = c.notes["raw"]
        case = dict(kind="oracle", chunks=[raw.concrete(m).hex()], buffer="", lens=lens)
        if pr.kind in ("raise", "timeout"):
            rep.ob("refuted", f"exception-escapes:tcp:{exc_site(pr.value) if pr.kind == 'raise' else 'hang'}", case, repr(pr.value)); return
        exp, rec, buf = pr.value
        rep.reach["delivered" if rec else "skipped"] += 1
        if len(exp) < len(lens):
            rep.reach["skipped"] += 1
        if len(exp) != len(rec) or len(buf):
            rep.ob("refuted", "frames-lost-or-duplicated", case, f"expected {len(exp)} frames, delivered {len(rec)}, buffer {len(buf)}"); return
        st, mm = c.prove(core.sym_and(*[sym_eq(a, b) for a, b in zip(exp, rec)]) if exp else True)
        rep.ob(st, "delivered-frames-differ", case if mm is None else dict(kind="oracle", chunks=[raw.concrete(mm).hex()], buffer="", lens=lens), "delivered frames differ from the sequential reference")
        rep.sample(dict(job=job["name"], witness=case, expected=len(exp)), limit=1)

    _, st = core.explore(run, on_path=judge, stop=rep.enough, timeout=600, path_timeout=25)
    rep.add_stats(st)


def _deliver(chunks, buffer=b""):
    from xknx.io.transport.tcp_transport import TCPTransport
    rec = []
    t = TCPTransport(("127.0.0.1", 3671))
    t.register_callback(lambda frame, hpai, tr: rec.append(frame))
    t._buffer = buffer
    for ch in chunks:
        t.data_received_callback(ch)
    return rec, t._buffer


def replay(case):
    import sys
    from xknx.knxip import KNXIPFrame
    from xknx.exceptions import CouldNotParseKNXIP
    sys.setrecursionlimit(3000)
    chunks = [bytes.fromhex(x) for x in case["chunks"]]
    buf = bytes.fromhex(case.get("buffer", ""))
    if case["kind"] == "udp":
        from xknx.io.transport.udp_transport import UDPTransport
        t = UDPTransport(local_addr=("127.0.0.1", 0), remote_addr=("127.0.0.1", 3671))
        try:
            t.data_received_callback(chunks[0], ("192.168.1.2", 3671))
        except Exception as e:  # noqa: BLE001
            return True, f"UDP callback raised {e!r}"
        return False, "ok"
    try:
        rec, b = _deliver(chunks, buf)
    except Exception as e:  # noqa: BLE001
        return True, f"TCP callback raised {type(e).__name__}: {e}"
    if case["kind"] == "split":
        rec1, b1 = _deliver([b"".join(chunks)])
        if [f.to_knx() for f in rec1] != [f.to_knx() for f in rec] or b1 != b:
            return True, f"one chunk: {len(rec1)} frames, buffer {b1.hex()}; split {case['chunks']}: {len(rec)} frames, buffer {b.hex()}"
    if case["kind"] == "oracle":
        s = b"".join(chunks)
        exp, pos = [], 0
        for ln in case["lens"]:
            try:
                exp.append(KNXIPFrame.from_knx(s[pos:pos + ln])[0])
            except CouldNotParseKNXIP:
                pass
            pos += ln
        if [f.to_knx() for f in exp] != [f.to_knx() for f in rec] or b:
            return True, f"expected {len(exp)} frames, delivered {len(rec)}, buffer {b.hex()}"
    return False, "ok"
