#!/usr/bin/env python3
"""Builds seeded/MATRIX.json and the markdown table for DESIGN.md §9.6 from the seed-matrix result files."""
import json, os, re, sys
rows = {}
for f in sys.argv[1:]:
    for l in open(f):
        m = re.match(r"(C\d+_[AB]) (?:exit=(\d+) violations=(\d+) harness_errors=(\d+) secs=(\d+)|(\w+))", l.strip())
        if m:
            rows[m.group(1)] = dict(exit=int(m.group(2)) if m.group(2) else None, violations=int(m.group(3) or 0), harness_errors=int(m.group(4) or 0),
                                    secs=int(m.group(5) or 0), note=m.group(6))
seeds = sorted(os.listdir("/verif/seeded"))
seeds = [s for s in seeds if re.match(r"C\d+_[AB]$", s)]
out = []
for s in seeds:
    r = rows.get(s)
    notes = open(f"/verif/seeded/{s}/notes.md").read() if os.path.exists(f"/verif/seeded/{s}/notes.md") else ""
    first = re.sub(r"^[-#* ]*(Change:?|C\d+ ?/? ?[AB]?[ -:]*)?", "", notes.strip().splitlines()[0] if notes.strip() else "").strip()
    caught = bool(r and r["exit"] == 1 and r["violations"] > 0)
    out.append(dict(seed=s, property=s.split("_")[0], caught=caught, result=r, change=first[:160]))
json.dump(out, open("/verif/seeded/MATRIX.json", "w"), indent=1)
print("| seed | caught by its property's quick check | change |")
print("|---|---|---|")
for o in out:
    r = o["result"]
    st = "yes" if o["caught"] else ("not run" if r is None else ("**no**" if r["exit"] == 0 else f"exit {r['exit']} ({r.get('note') or 'harness error'})"))
    print(f"| {o['seed']} | {st} | {o['change']} |")
