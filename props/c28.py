"""C28 IP Secure wrapping is correct, tamper-evident and standard-conformant."""
from __future__ import annotations

ID = "C28"
BOUNDS = {
    "quick": "session key (128 bit), session id (16 bit), 48-bit sequence number; (a)+(b) plain frame = TunnellingRequest / RoutingIndication / ConnectionStateRequest with symbolic fields and a symbolic cEMI of n = 0..12, 22, 27 octets: wrap->serialise->parse->unwrap identity and octet-wise equality with the reference wrapper; timer-notify and both handshake MACs against the reference (symbolic keys, session id, user id, timer, serial, tag; concrete public keys); (c) an arbitrary received SECURE_WRAPPER (session id, sequence info, serial, tag, ciphertext of 2 and 6 octets, MAC all symbolic) against a receiver with symbolic key and session id",
    "thorough": "as quick with n = 0..80 and ciphertexts of 2, 6, 9, 10, 17, 26 octets",
}
OUTSIDE = "AES strength (uninterpreted permutation: acceptance implies the specification MAC equation over all fields as received, so changing any of them or the key needs a forgery); X25519, SHA-256 and PBKDF2 (concrete / not exercised); frames longer than the bound"
ASSUMPTIONS = [
    "AES-128 = uninterpreted function E(key, block); mode logic checked against the cryptography library at each run; replays use real AES",
    "reference: /verif/spec/ipsecure_reference.py written from the KNXnet/IP Secure specification",
    "cut in (c): the decrypted inner frame is not parsed (KNXIPFrame.from_knx inside xknx.io.ip_secure is replaced by an arbitrary choice of service type or parse error); inner parsing is C20's subject",
    "handshake: ECDH public keys are concrete octet strings (their xor is an input of the MAC), SessionSecure._key derivation is outside",
]
EXPLANATION = ("C28: _IPSecureTransportLayer.encrypt_frame/decrypt_frame, SecureWrapper to_knx/from_knx, KNXIPFrame, SecureSequenceTimer.send_timer_notify/"
               "verify_timer_notify_mac and SecureSession.handshake run symbolically over E; z3 proves identity, conformance and the acceptance equation.")
INTERESTING = ["roundtrip", "conformant", "accepted", "rejected", "handshake", "timer-notify"]
REQUIRED_REACH = ["roundtrip", "conformant", "accepted", "rejected", "handshake", "timer-notify"]


def jobs(tier, seed):
    ns = list(range(0, 13)) + [22, 27] if tier == "quick" else list(range(0, 81))
    out = [dict(name=f"wrap-n{n}", kind="wrap", n=n, cost=n + 5) for n in ns]
    for L in ((2, 6) if tier == "quick" else (2, 6, 9, 10, 17, 26)):
        out.append(dict(name=f"recv-L{L}", kind="recv", L=L, cost=60))
    out += [dict(name="handshake", kind="handshake", cost=10), dict(name="timer-notify", kind="timer", cost=10)]
    return out


def mk_layer(ips, key, session_id, seq):
    class Layer(ips._IPSecureTransportLayer):
        __slots__ = ("_key", "session_id", "_sequence_number")

        def get_sequence_information(self):
            n = self._sequence_number.to_bytes(6, "big")
            self._sequence_number += 1
            return n

        def get_message_tag(self):
            return ips.MESSAGE_TAG_TUNNELLING
    l = Layer()
    l._key, l.session_id, l._sequence_number = key, session_id, seq
    return l


def bodies(c, n, knxip):
    cemi = c.fresh_bytes("cemi", n)
    return [
        ("TunnellingRequest", knxip.TunnellingRequest(communication_channel_id=c.fresh_int("ch", 0, 255), sequence_counter=c.fresh_int("sc", 0, 255), raw_cemi=cemi)),
        ("RoutingIndication", knxip.RoutingIndication(raw_cemi=cemi)),
    ]


def run_job(job, rep):
    import types
    import z3
    from symx import core, crypto, shims
    from vx.harness import trace_functions
    from vx.util import exc_site, sym_eq
    import props.ds_common as dc
    dc.setup()
    from spec import ipsecure_reference as ref
    import xknx.io.ip_secure as ips
    import xknx.knxip as knxip
    from xknx.exceptions import KNXSecureValidationError, CouldNotParseKNXIP, IPSecureError

    kind = job["kind"]
    SERIAL = list(ips.XKNX_SERIAL_NUMBER)

    if kind == "wrap":
        n = job["n"]
        for bi in range(2):
            def run(c):
                key = c.fresh_bytes("k", 16)
                sid = c.fresh_int("sid", 0, 65535)
                seq = c.fresh_int("seq", 0, (1 << 48) - 1)
                name, body = bodies(c, n, knxip)[bi]
                c.notes.update(key=key, sid=sid, seq=seq, body=name, fields={k: v for k, v in vars(body).items()})
                layer = mk_layer(ips, key, sid, seq)
                plain = knxip.KNXIPFrame.init_from_body(body)

                def go():
                    w = layer.encrypt_frame(plain)
                    wire = w.to_knx()
                    parsed, rest = knxip.KNXIPFrame.from_knx(shims.bytes_shim(wire))
                    back = layer.decrypt_frame(parsed)
                    return wire, back, rest
                wire, back, rest = trace_functions(go, rep) if not rep.functions else go()
                exp = ref.wrap(crypto.enc_block, dc.bv_add, list(key), list(core.int_to_bytes(sid, 2)), list(core.int_to_bytes(seq, 6)), SERIAL, [0, 0], list(plain.to_knx()))
                return plain, wire, back, rest, exp, layer._sequence_number

            def judge(pr):
                c = pr.ctx
                if pr.kind in ("unsupported", "timeout"):
                    rep.inconcl(f"{job['name']}: {pr.value}"); return
                n_ = c.notes
                m = c.current_model()

                def mcase(mm):
                    return dict(kind="wrap", body=n_["body"], key=core.model_val(mm, n_["key"]).hex(), sid=core.model_val(mm, n_["sid"]), seq=core.model_val(mm, n_["seq"]),
                                fields={k: (core.model_val(mm, v).hex() if isinstance(core.model_val(mm, v), bytes) else core.model_val(mm, v)) for k, v in n_["fields"].items()})
                case = mcase(m)
                if pr.kind == "raise":
                    rep.ob("refuted", f"wrap-roundtrip-raises:{exc_site(pr.value)}", case, repr(pr.value)); return
                plain, wire, back, rest, exp, seq_after = pr.value
                rep.reach["roundtrip"] += 1
                st, mm = c.prove(core.sym_and(sym_eq(back.body, plain.body), back.header.service_type_ident is plain.header.service_type_ident,
                                              sym_eq(back.header.total_length, plain.header.total_length), len(rest) == 0, seq_after == n_["seq"] + 1))
                rep.ob(st, f"unwrap-differs:{n_['body']}", mcase(mm) if mm is not None else case, "unwrap(wrap(frame)) != frame")
                if len(wire) != len(exp):
                    rep.ob("refuted", f"wrapper-length:{n_['body']}", case, f"{len(wire)} != {len(exp)}"); return
                diffs = [core.zint(a) != core.zint(b) for a, b in zip(wire, exp) if not (isinstance(a, int) and isinstance(b, int) and a == b)]
                st2, mm = c.sat(z3.Or(*diffs)) if diffs else ("unsat", None)
                if st2 == "sat":
                    rep.ob("refuted", f"wrapper-differs-from-reference:{n_['body']}", mcase(mm), "wrapper octets differ from the reference")
                else:
                    rep.ob("proved" if st2 == "unsat" else "unknown", "wrapper-differs-from-reference", case)
                    rep.reach["conformant"] += 1
                rep.sample(dict(n=n, witness={k: v for k, v in case.items() if k != "fields"}), limit=1)

            _, st = core.explore(run, on_path=judge, stop=rep.enough, timeout=900)
            rep.add_stats(st)
        return

    if kind == "recv":
        L = job["L"]

        def run(c):
            key = c.fresh_bytes("k", 16)
            own = c.fresh_int("own_sid", 0, 65535)
            sid = c.fresh_bytes("sid", 2)
            seq, serial, tag = c.fresh_bytes("seq", 6), c.fresh_bytes("ser", 6), c.fresh_bytes("tag", 2)
            ct, mac = c.fresh_bytes("c", L), c.fresh_bytes("mac", 16)
            total = 38 + L
            header = [0x06, 0x10, 0x09, 0x50, total >> 8, total & 0xFF]
            raw = core.SymBytes(header + list(sid) + list(seq) + list(serial) + list(tag) + list(ct) + list(mac))
            c.notes.update(key=key, own=own, raw=raw, header=header, sid=sid, seq=seq, serial=serial, tag=tag, ct=ct, mac=mac)
            layer = mk_layer(ips, key, own, 0)
            frame, _ = knxip.KNXIPFrame.from_knx(raw)
            # cut: parsing of the decrypted inner frame is C20's subject; its outcome (which service type, or a parse error)
            # is an arbitrary environment choice here, so the forbidden-service filter is still exercised for every type
            members = list(knxip.KNXIPServiceType)

            class InnerFrame:
                @staticmethod
                def from_knx(data):
                    i = core.concretize(c.fresh_int("inner_service", 0, len(members)))
                    if i == len(members):
                        raise CouldNotParseKNXIP("inner frame does not parse")
                    return types.SimpleNamespace(header=types.SimpleNamespace(service_type_ident=members[i]), body=None), b""
            ips.KNXIPFrame = InnerFrame
            try:
                inner = layer.decrypt_frame(frame)
            except KNXSecureValidationError as e:
                return ("rejected", e)
            except CouldNotParseKNXIP as e:
                return ("unparsable-inner", e)
            return ("accepted", inner)

        def judge(pr):
            c = pr.ctx
            if pr.kind in ("unsupported", "timeout"):
                rep.inconcl(f"{job['name']}: {pr.value}"); return
            n_ = c.notes
            m = c.current_model()
            mcase = lambda mm: dict(kind="recv", key=core.model_val(mm, n_["key"]).hex(), own=core.model_val(mm, n_["own"]), raw=n_["raw"].concrete(mm).hex())
            case = mcase(m)
            if pr.kind == "raise":
                rep.ob("refuted", "decrypt-raises:" + exc_site(pr.value), case, repr(pr.value)); return
            if pr.value[0] == "rejected":
                rep.reach["rejected"] += 1
                return
            rep.reach["accepted" if pr.value[0] == "accepted" else "authenticated-unparsable-inner"] += 1
            pairs, plain = ref.unwrap_check(crypto.enc_block, dc.bv_add, list(n_["key"]), n_["header"], list(n_["sid"]), list(n_["seq"]), list(n_["serial"]),
                                            list(n_["tag"]), list(n_["ct"]), list(n_["mac"]))
            conds = [core.zint(a) == core.zint(b) for a, b in pairs]
            conds.append(core.as_z3_bool(core.int_from_bytes(n_["sid"]) == n_["own"]))
            if pr.value[0] == "accepted":
                inner = pr.value[1]
                conds.append(z3.BoolVal(inner.header.service_type_ident not in ips.FORBIDDEN_WRAPPED_SERVICES))
            st, mm = c.prove(z3.And(*conds))
            rep.ob(st, "accepted-without-spec-mac", mcase(mm) if mm is not None else case, "wrapper accepted although MAC/session id/inner service do not satisfy the specification")
            rep.sample(dict(L=L, outcome=pr.value[0], witness=case), limit=1)

        _, st = core.explore(run, on_path=judge, stop=rep.enough, timeout=1200)
        rep.add_stats(st)
        return

    if kind == "timer":
        def run(c):
            key = c.fresh_bytes("k", 16)
            timer = c.fresh_int("timer", 0, (1 << 48) - 1)
            serial, tag = c.fresh_bytes("ser", 6), c.fresh_bytes("tag", 2)
            sent = []
            t = ips.SecureSequenceTimer.__new__(ips.SecureSequenceTimer)
            t._backbone_key = key
            t._clock_difference = 0
            t._transport_send = lambda frame, addr: sent.append(frame)
            t._loop = types.SimpleNamespace(time=lambda: 0)
            ips.SecureSequenceTimer._monotonic_ms = lambda self: timer
            c.notes.update(key=key, timer=timer, serial=serial, tag=tag)
            f = lambda: t.send_timer_notify(message_tag=tag, serial_number=serial)
            trace_functions(f, rep) if not rep.functions else f()
            body = sent[0].body
            t.verify_timer_notify_mac(body)     # own notify must verify
            exp = ref.timer_notify_mac(crypto.enc_block, list(key), list(core.int_to_bytes(timer, 6)), list(serial), list(tag))
            return body, exp

        def judge(pr):
            c = pr.ctx
            n_ = c.notes
            m = c.current_model()
            mcase = lambda mm: dict(kind="timer", key=core.model_val(mm, n_["key"]).hex(), timer=core.model_val(mm, n_["timer"]), serial=core.model_val(mm, n_["serial"]).hex(), tag=core.model_val(mm, n_["tag"]).hex())
            case = mcase(m)
            if pr.kind != "ok":
                rep.ob("refuted", "timer-notify-raises:" + (exc_site(pr.value) if pr.kind == "raise" else pr.kind), case, repr(pr.value)); return
            body, exp = pr.value
            rep.reach["timer-notify"] += 1
            diffs = [core.zint(a) != core.zint(b) for a, b in zip(body.message_authentication_code, exp)]
            st, mm = c.sat(z3.Or(*diffs))
            rep.ob("refuted" if st == "sat" else ("proved" if st == "unsat" else "unknown"), "timer-notify-mac-differs-from-reference", mcase(mm) if mm is not None else case, "TimerNotify MAC differs from the reference")
            st, mm = c.prove(core.sym_and(body.timer_value == n_["timer"], body.serial_number == n_["serial"], body.message_tag == n_["tag"]))
            rep.ob(st, "timer-notify-fields", mcase(mm) if mm is not None else case, "TimerNotify fields")
            rep.sample(dict(witness=case))
        _, st = core.explore(run, on_path=judge, stop=rep.enough, timeout=600)
        rep.add_stats(st)
        return

    # handshake
    CLIENT_PUB = bytes(range(1, 33))
    SERVER_PUB = bytes(range(101, 133))
    PX = [a ^ b for a, b in zip(CLIENT_PUB, SERVER_PUB)]

    def run(c):
        dev = c.fresh_bytes("dev", 16)
        usr = c.fresh_bytes("usr", 16)
        sid = c.fresh_int("sid", 0, 65535)
        uid = c.fresh_int("uid", 0, 255)
        mac = c.fresh_bytes("mac", 16)
        s = ips.SecureSession.__new__(ips.SecureSession)
        s._device_authentication_code, s._user_password, s.user_id, s.public_key = dev, usr, uid, CLIENT_PUB
        s._private_key = types.SimpleNamespace(exchange=lambda peer: bytes(32))
        ips.X25519PublicKey = types.SimpleNamespace(from_public_bytes=lambda b: b)
        c.notes.update(dev=dev, usr=usr, sid=sid, uid=uid, mac=mac)
        resp = knxip.SessionResponse(secure_session_id=sid, ecdh_server_public_key=SERVER_PUB, message_authentication_code=mac)
        try:
            f = lambda: s.handshake(resp)
            out = trace_functions(f, rep) if not rep.functions else f()
        except IPSecureError:
            return ("response-rejected",)
        return ("ok", out, s.session_id)

    def judge(pr):
        c = pr.ctx
        n_ = c.notes
        m = c.current_model()
        mcase = lambda mm: dict(kind="handshake", dev=core.model_val(mm, n_["dev"]).hex(), usr=core.model_val(mm, n_["usr"]).hex(), sid=core.model_val(mm, n_["sid"]), uid=core.model_val(mm, n_["uid"]), mac=core.model_val(mm, n_["mac"]).hex())
        case = mcase(m)
        if pr.kind != "ok":
            rep.ob("refuted", "handshake-raises:" + (exc_site(pr.value) if pr.kind == "raise" else pr.kind), case, repr(pr.value)); return
        rep.reach["handshake"] += 1
        exp_resp = ref.session_response_mac(crypto.enc_block, list(n_["dev"]), list(core.int_to_bytes(n_["sid"], 2)), PX)
        resp_ok = z3.And(*[core.zint(a) == core.zint(b) for a, b in zip(n_["mac"], exp_resp)])
        if pr.value[0] == "response-rejected":
            st, mm = c.prove(z3.Not(resp_ok))
            rep.ob(st, "genuine-session-response-rejected", mcase(mm) if mm is not None else case, "SessionResponse with the reference MAC rejected")
            return
        _, out, sid2 = pr.value
        exp_auth = ref.session_authenticate_mac(crypto.enc_block, list(n_["usr"]), n_["uid"], PX)
        conds = [resp_ok, core.as_z3_bool(sid2 == n_["sid"])] + [core.zint(a) == core.zint(b) for a, b in zip(out, exp_auth)]
        st, mm = c.prove(z3.And(*conds))
        rep.ob(st, "handshake-mac-differs-from-reference", mcase(mm) if mm is not None else case, "SessionResponse accepted without the reference MAC, or SessionAuthenticate MAC differs from the reference")
        rep.sample(dict(witness=case))
    _, st = core.explore(run, on_path=judge, stop=rep.enough, timeout=600)
    rep.add_stats(st)


def replay(case):
    import types
    import props.ds_common as dc
    from spec import ipsecure_reference as ref
    import xknx.io.ip_secure as ips
    import xknx.knxip as knxip
    from xknx.exceptions import KNXSecureValidationError, CouldNotParseKNXIP, IPSecureError
    bv = lambda ctr, k: list(((int.from_bytes(bytes(ctr), "big") + k) % (1 << 128)).to_bytes(16, "big"))
    SERIAL = list(ips.XKNX_SERIAL_NUMBER)
    if case["kind"] == "wrap":
        key = bytes.fromhex(case["key"])
        layer = mk_layer(ips, key, case["sid"], case["seq"])
        f = {k: (bytes.fromhex(v) if isinstance(v, str) else v) for k, v in case["fields"].items()}
        body = getattr(knxip, case["body"])(**f)
        plain = knxip.KNXIPFrame.init_from_body(body)
        try:
            w = layer.encrypt_frame(plain)
            wire = w.to_knx()
            back = layer.decrypt_frame(knxip.KNXIPFrame.from_knx(wire)[0])
        except Exception as e:  # noqa: BLE001
            return True, f"wrap/unwrap raised {e!r}"
        if back.to_knx() != plain.to_knx():
            return True, f"unwrap(wrap(f)) = {back.to_knx().hex()} != {plain.to_knx().hex()}"
        exp = bytes(ref.wrap(dc.real_enc, bv, list(key), list(case["sid"].to_bytes(2, "big")), list(case["seq"].to_bytes(6, "big")), SERIAL, [0, 0], list(plain.to_knx())))
        if wire != exp:
            return True, f"wrapper {wire.hex()} != reference {exp.hex()}"
        return False, "ok"
    if case["kind"] == "recv":
        key = bytes.fromhex(case["key"])
        raw = bytes.fromhex(case["raw"])
        # rebuild ciphertext+MAC genuinely for the header fields of the model: wrap an inner frame of the same length
        sid, seq, ser, tag = raw[6:8], raw[8:14], raw[14:20], raw[20:22]
        cands = [raw]
        # genuine-for-xknx variant: let xknx's own primitives produce C and MAC for the header fields of the model around a
        # parsable inner frame (an empty ROUTING_INDICATION; the ciphertext length is not what the counterexample is about)
        inner = bytes([0x06, 0x10, 0x05, 0x30, 0x00, 0x06])
        hdr = bytes([0x06, 0x10, 0x09, 0x50, 0x00, 38 + len(inner)])
        from xknx.secure.security_primitives import calculate_message_authentication_code_cbc, encrypt_data_ctr
        mac_cbc = calculate_message_authentication_code_cbc(key=key, additional_data=hdr + sid, payload=inner, block_0=seq + ser + tag + len(inner).to_bytes(2, "big"))
        ct, mac = encrypt_data_ctr(key=key, counter_0=seq + ser + tag + b"\xff\x00", mac_cbc=mac_cbc, payload=inner)
        cands.append(hdr + sid + seq + ser + tag + ct + mac)
        for r in cands:
            layer = mk_layer(ips, key, case["own"], 0)
            try:
                frame = knxip.KNXIPFrame.from_knx(r)[0]
                layer.decrypt_frame(frame)
            except (KNXSecureValidationError, CouldNotParseKNXIP):
                # may still have passed the MAC check before the inner parse failed: judge the MAC equation only on acceptance
                continue
            except Exception as e:  # noqa: BLE001
                return True, f"decrypt_frame raised {e!r}"
            pairs, p = ref.unwrap_check(dc.real_enc, bv, list(key), list(r[:6]), list(r[6:8]), list(r[8:14]), list(r[14:20]), list(r[20:22]), list(r[22:-16]), list(r[-16:]))
            if any(a != b for a, b in pairs) or int.from_bytes(r[6:8], "big") != case["own"]:
                return True, f"wrapper {r.hex()} accepted by a receiver with session id {case['own']} although the specification MAC/session check fails"
        return False, "ok"
    if case["kind"] == "timer":
        key = bytes.fromhex(case["key"])
        sent = []
        t = ips.SecureSequenceTimer.__new__(ips.SecureSequenceTimer)
        t._backbone_key, t._clock_difference = key, 0
        t._transport_send = lambda frame, addr: sent.append(frame)
        t._loop = types.SimpleNamespace(time=lambda: case["timer"] / 1000)
        t._clock_difference = case["timer"] - t._monotonic_ms()
        t.send_timer_notify(message_tag=bytes.fromhex(case["tag"]), serial_number=bytes.fromhex(case["serial"]))
        body = sent[0].body
        exp = bytes(ref.timer_notify_mac(dc.real_enc, list(key), list(case["timer"].to_bytes(6, "big")), list(bytes.fromhex(case["serial"])), list(bytes.fromhex(case["tag"]))))
        if body.message_authentication_code != exp or body.timer_value != case["timer"]:
            return True, f"TimerNotify MAC {body.message_authentication_code.hex()} != reference {exp.hex()}"
        return False, "ok"
    CLIENT_PUB, SERVER_PUB = bytes(range(1, 33)), bytes(range(101, 133))
    PX = [a ^ b for a, b in zip(CLIENT_PUB, SERVER_PUB)]
    dev, usr = bytes.fromhex(case["dev"]), bytes.fromhex(case["usr"])
    exp_resp = bytes(ref.session_response_mac(dc.real_enc, list(dev), list(case["sid"].to_bytes(2, "big")), PX))
    exp_auth = bytes(ref.session_authenticate_mac(dc.real_enc, list(usr), case["uid"], PX))
    from unittest.mock import patch, Mock
    for mac in (bytes.fromhex(case["mac"]), exp_resp):
        s = ips.SecureSession.__new__(ips.SecureSession)
        s._device_authentication_code, s._user_password, s.user_id, s.public_key = dev, usr, case["uid"], CLIENT_PUB
        s._private_key = Mock()
        s._private_key.exchange = lambda peer: bytes(32)
        with patch.object(ips, "X25519PublicKey", Mock(from_public_bytes=lambda b: b)):
            resp = knxip.SessionResponse(secure_session_id=case["sid"], ecdh_server_public_key=SERVER_PUB, message_authentication_code=mac)
            try:
                out = s.handshake(resp)
            except IPSecureError:
                if mac == exp_resp:
                    return True, "SessionResponse carrying the reference MAC rejected"
                continue
        if mac != exp_resp:
            return True, "SessionResponse accepted although its MAC differs from the reference"
        if out != exp_auth:
            return True, f"SessionAuthenticate MAC {out.hex()} != reference {exp_auth.hex()}"
    return False, "ok"
