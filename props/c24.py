"""C24 Outgoing tunnel frames are sequenced and confirmed only by their own ACK."""
from __future__ import annotations

ID = "C24"
BOUNDS = {
    "quick": "(a) Tunnelling._response_rec_callback: request channel/counter 0..255 symbolic against an arbitrary TunnellingAck (channel, counter, every status code); (b) one step of the sending counter from any value 0..255 and its reset on tunnel establishment; (c) UDPTunnel.send_cemi and the TCP variant as one coroutine from any counter value against every schedule of acknowledgement outcomes {ok, no/erroneous ACK} for up to three transmissions, with auto-reconnect on and off, two calls in a row",
    "thorough": "same (the explored space is complete for the stated environment)",
}
OUTSIDE = "several senders competing for the send lock and ACKs arriving at arbitrary loop iterations (one coroutine is driven; the reconnect task is an inert handle whose completion the environment renders as 'tunnel re-established'); the 1 s ACK timeout itself (RequestResponse.request uses asyncio.timeout)"
ASSUMPTIONS = [
    "_send_tunnelling_request is the environment: it records the frame and either returns (acknowledged) or raises TunnellingAckError; awaiting the reconnect task calls _tunnel_established() as a finished reconnect would",
]
EXPLANATION = ("C24: the real callback and coroutines run symbolically; z3 decides that a response is accepted only for the request's own channel/counter with E_NO_ERROR, "
               "that repetitions reuse the counter, at most two transmissions precede the tunnel loss, and that the counter advances exactly once per call modulo 256 and restarts at 0.")
INTERESTING = ["ack-accepted", "ack-ignored", "ack-error", "sent-first-try", "sent-second-try", "sent-after-reconnect", "send-failed"]
REQUIRED_REACH = ["ack-accepted", "ack-error", "sent-first-try", "sent-second-try", "sent-after-reconnect", "send-failed"]


def jobs(tier, seed):
    return [dict(name="ack", kind="ack"), dict(name="counter", kind="counter"), dict(name="send-udp-reconnect", kind="send", udp=True, reconnect=True),
            dict(name="send-udp-noreconnect", kind="send", udp=True, reconnect=False), dict(name="send-tcp", kind="send", udp=False, reconnect=True)]


def run_job(job, rep):
    import types
    import z3
    from symx import core, aio
    from vx.harness import trace_functions
    from vx.util import exc_site
    import xknx.io.tunnel as tn
    import xknx.io.request_response.tunnelling as rt
    from xknx.knxip import KNXIPFrame, TunnellingAck, TunnellingRequest, ErrorCode, HPAI
    from xknx.exceptions import CommunicationError, TunnellingAckError
    from xknx.cemi import CEMIFrame, CEMILData, CEMIMessageCode
    from xknx.telegram import GroupAddress, IndividualAddress, Telegram
    from xknx.telegram.apci import GroupValueWrite
    from xknx.dpt import DPTBinary

    kind = job["kind"]
    if kind == "ack":
        codes = list(ErrorCode)

        def run(c):
            ch, sc = c.fresh_int("req_channel", 0, 255), c.fresh_int("req_counter", 0, 255)
            ach, asc = c.fresh_int("ack_channel", 0, 255), c.fresh_int("ack_counter", 0, 255)
            st = codes[core.concretize(c.fresh_int("status_idx", 0, len(codes) - 1))]
            req = TunnellingRequest(communication_channel_id=ch, sequence_counter=sc, raw_cemi=b"\x11\x00")
            t = rt.Tunnelling(types.SimpleNamespace(), None, req)
            c.notes.update(ch=ch, sc=sc, ach=ach, asc=asc, st=st.name)
            f = lambda: t._response_rec_callback(KNXIPFrame.init_from_body(TunnellingAck(communication_channel_id=ach, sequence_counter=asc, status_code=st)), HPAI(), None)
            trace_functions(f, rep) if not rep.functions else f()
            return t._response, t._error_code, t._response_received_event.is_set(), st

        def judge(pr):
            c = pr.ctx
            n_ = c.notes
            m = c.current_model()
            mcase = lambda mm: dict(kind="ack", **{k: core.model_val(mm, v) for k, v in n_.items()})
            case = mcase(m)
            if pr.kind != "ok":
                rep.ob("refuted", "ack-callback-raises", case, repr(pr.value)); return
            resp, err, evt, st = pr.value
            own = core.sym_and(n_["ch"] == n_["ach"], n_["sc"] == n_["asc"])
            if resp is not None:
                rep.reach["ack-accepted"] += 1
                s_, mm = c.prove(core.sym_and(own, st is ErrorCode.E_NO_ERROR))
                rep.ob(s_, "ack-of-other-request-accepted", mcase(mm) if mm is not None else case, "send would succeed on an acknowledgement with another channel id / sequence counter or an error status")
            elif evt:
                rep.reach["ack-error"] += 1
                rep.ob("proved" if st is not ErrorCode.E_NO_ERROR else "refuted", "ack-error-status", case, "")
            else:
                rep.reach["ack-ignored"] += 1
                rep.obligations += 1; rep.discharged += 1
            rep.sample(dict(witness=case, accepted=resp is not None), limit=2)
        _, stt = core.explore(run, on_path=judge, stop=rep.enough)
        rep.add_stats(stt)
        return

    def mk_tunnel(c, udp, reconnect, log):
        tn.asyncio = aio.asyncio_shim(log)
        cls = tn.UDPTunnel if udp else tn.TCPTunnel
        t = cls.__new__(cls)
        import asyncio as real
        t._send_lock = real.Lock()
        t._reconnect_task = None
        t.auto_reconnect = reconnect
        t.communication_channel = c.fresh_int("channel", 0, 255)
        t.sequence_number = c.fresh_int("seq", 0, 255)
        hb = []
        t._heartbeat = types.SimpleNamespace(start=lambda: hb.append("start"), stop=lambda: hb.append("stop"))
        if udp:
            t._invalid_sequence_number_reconnect_task = None
        return t

    if kind == "counter":
        def run(c):
            log = []
            t = mk_tunnel(c, True, True, log)
            s0 = t.sequence_number
            t._increase_sequence_number()
            s1 = t.sequence_number
            t._tunnel_established()
            return s0, s1, t.sequence_number

        def judge(pr):
            c = pr.ctx
            if pr.kind != "ok":
                rep.ob("refuted", "counter-raises", dict(kind="counter"), repr(pr.value)); return
            s0, s1, s2 = pr.value
            m = c.current_model()
            case = dict(kind="counter", seq=core.model_val(m, s0))
            st, mm = c.prove(core.sym_and(s1 == core.ite(s0 == 255, 0, s0 + 1), s2 == 0))
            rep.ob(st, "counter-step", case if mm is None else dict(kind="counter", seq=core.model_val(mm, s0)), "sequence counter does not advance modulo 256 / restart at 0")
            rep.reach["sent-first-try"] += 0
        _, stt = core.explore(run, on_path=judge, stop=rep.enough)
        rep.add_stats(stt)
        return

    udp, reconnect = job["udp"], job["reconnect"]
    cemi = CEMIFrame(code=CEMIMessageCode.L_DATA_REQ, data=CEMILData.init_from_telegram(Telegram(destination_address=GroupAddress(0x0801), payload=GroupValueWrite(DPTBinary(1))), src_addr=IndividualAddress(0x1101)))

    def run(c):
        log = []
        t = mk_tunnel(c, udp, reconnect, log)
        s0, ch0 = t.sequence_number, t.communication_channel
        sent = []
        lost = []

        async def stub(self, frame):
            i = len(sent)
            sent.append((frame.communication_channel_id, frame.sequence_counter, frame.raw_cemi))
            o = core.concretize(c.fresh_int(f"ack{i}", 0, 1))
            log.append(("tx", o))
            if o == 1:
                raise TunnellingAckError("no ACK")
        type(t)._send_tunnelling_request = stub
        real_lost = type(t)._tunnel_lost

        def on_await(task):
            t._tunnel_established()          # a finished reconnect re-establishes the tunnel: counter restarts
        aio.InertTask.on_await = on_await
        if not reconnect:
            # no-reconnect path closes the transport: record instead
            type(t)._tunnel_lost = lambda self: lost.append("lost")
        c.notes.update(s0=s0, ch=ch0)
        res = []
        for _ in range(2):
            before = t.sequence_number
            n0 = len(sent)
            f = lambda: aio.drive(t.send_cemi(cemi))
            try:
                r = trace_functions(f, rep) if not rep.functions else f()
                res.append(("ok", before, t.sequence_number, sent[n0:], [e for e in log if e[0] in ("create_task", "await_task")]))
            except CommunicationError as e:
                res.append(("failed", before, t.sequence_number, sent[n0:], [e_ for e_ in log if e_[0] in ("create_task", "await_task")]))
            del log[:]
        if not reconnect:
            type(t)._tunnel_lost = real_lost
        return res, lost

    def judge(pr):
        c = pr.ctx
        n_ = c.notes
        m = c.current_model()
        mcase = lambda mm: dict(kind="send", udp=udp, reconnect=reconnect, seq=core.model_val(mm, n_["s0"]), channel=core.model_val(mm, n_["ch"]), acks=[d for d in c.decisions if isinstance(d, tuple)][:8].__len__())
        case = mcase(m)
        if pr.kind != "ok":
            rep.ob("refuted", "send-raises:" + (exc_site(pr.value) if pr.kind == "raise" else pr.kind), case, repr(pr.value)); return
        res, lost = pr.value
        conds = []
        for tag, before, after, tx, tasks in res:
            n = len(tx)
            raw = cemi.to_knx()
            reconnected = ("await_task",) in tasks
            # every transmission before a reconnect carries the counter the call started with; after it the restarted one (0)
            for i, (ch, sc, rc) in enumerate(tx):
                exp_sc = before if (i < 2 or not reconnected) else 0
                conds += [sc == exp_sc, ch == n_["ch"], rc == raw]
            if not udp:
                conds.append(n == 1)
            conds.append(n <= (3 if (udp and reconnect) else (2 if udp else 1)))
            if n == 3:
                conds.append(reconnected)
            # exactly one increment per call (relative to the counter in force at the end: restarted counter after a reconnect)
            base = 0 if reconnected else before
            conds.append(after == core.ite(core.as_z3_bool(base == 255) if core.is_sym(base) else base == 255, 0, base + 1))
            if tag == "ok":
                rep.reach[{1: "sent-first-try", 2: "sent-second-try", 3: "sent-after-reconnect"}[n]] += 1
            else:
                rep.reach["send-failed"] += 1
        st, mm = c.prove(core.sym_and(*conds))
        rep.ob(st, f"send-sequencing:{'udp' if udp else 'tcp'}", mcase(mm) if mm is not None else case, f"transmissions/counters deviate: {[(t_, len(x)) for t_, _, _, x, _ in res]}")
        rep.sample(dict(witness=case, calls=[(t_, len(x)) for t_, _, _, x, _ in res]), limit=3)

    _, stt = core.explore(run, on_path=judge, stop=rep.enough, timeout=600)
    rep.add_stats(stt)
    aio.InertTask.on_await = None


def replay(case):
    import asyncio
    from unittest.mock import Mock, patch
    if case["kind"] == "ack":
        import xknx.io.request_response.tunnelling as rt
        from xknx.knxip import KNXIPFrame, TunnellingAck, TunnellingRequest, ErrorCode, HPAI

        async def go():
            req = TunnellingRequest(communication_channel_id=case["ch"], sequence_counter=case["sc"], raw_cemi=b"\x11\x00")
            t = rt.Tunnelling(Mock(), None, req)
            st = ErrorCode[case["st"]]
            t._response_rec_callback(KNXIPFrame.init_from_body(TunnellingAck(communication_channel_id=case["ach"], sequence_counter=case["asc"], status_code=st)), HPAI(), None)
            if t._response is not None and not (case["ch"] == case["ach"] and case["sc"] == case["asc"] and st is ErrorCode.E_NO_ERROR):
                return True, f"request channel {case['ch']} counter {case['sc']} accepted ACK channel {case['ach']} counter {case['asc']} status {st.name}"
            return False, "ok"
        return asyncio.run(go())
    from xknx import XKNX
    import xknx.io.tunnel as tn
    from xknx.exceptions import CommunicationError, TunnellingAckError
    from xknx.cemi import CEMIFrame, CEMILData, CEMIMessageCode
    from xknx.telegram import GroupAddress, IndividualAddress, Telegram
    from xknx.telegram.apci import GroupValueWrite
    from xknx.dpt import DPTBinary

    async def go():
        xk = XKNX()
        if case["kind"] == "counter":
            t = tn.UDPTunnel(xk, cemi_received_callback=Mock(), gateway_ip="10.0.0.1", gateway_port=3671, local_ip="10.0.0.2")
            t.sequence_number = case["seq"]
            t._increase_sequence_number()
            s1 = t.sequence_number
            with patch.object(type(t), "start_heartbeat", lambda self: None):
                t._tunnel_established()
            if s1 != (case["seq"] + 1) % 256 or t.sequence_number != 0:
                return True, f"counter {case['seq']} -> {s1}; after establishment {t.sequence_number}"
            return False, "ok"
        cemi = CEMIFrame(code=CEMIMessageCode.L_DATA_REQ, data=CEMILData.init_from_telegram(Telegram(destination_address=GroupAddress(0x0801), payload=GroupValueWrite(DPTBinary(1))), src_addr=IndividualAddress(0x1101)))
        import itertools
        for acks in itertools.product((0, 1), repeat=6):
            if case["udp"]:
                t = tn.UDPTunnel(xk, cemi_received_callback=Mock(), gateway_ip="10.0.0.1", gateway_port=3671, local_ip="10.0.0.2", auto_reconnect=case["reconnect"])
            else:
                t = tn.TCPTunnel(xk, cemi_received_callback=Mock(), gateway_ip="10.0.0.1", gateway_port=3671)
                t.auto_reconnect = case["reconnect"]
            t.communication_channel, t.sequence_number = case["channel"], case["seq"]
            sent, it = [], iter(acks)

            async def stub(self, frame):
                sent.append(frame.sequence_counter)
                if next(it) == 1:
                    raise TunnellingAckError("no ACK")

            async def reconnect(self):
                self._tunnel_established()          # what a finished reconnect does (same rendering as in the symbolic environment)
            with patch.object(type(t), "start_heartbeat", lambda self: None), patch.object(type(t), "_send_tunnelling_request", stub), patch.object(type(t), "_reconnect", reconnect), patch.object(type(t), "_prepare_disconnect", lambda self: None), \
                    patch.object(type(t), "transport", Mock(transport=None), create=True):
                for _ in range(2):
                    before, n0 = t.sequence_number, len(sent)
                    try:
                        await t.send_cemi(cemi)
                    except CommunicationError:
                        pass
                    tx = sent[n0:]
                    reconnected = len(tx) == 3
                    base = 0 if reconnected else before
                    if any(sc != (before if i < 2 else 0) for i, sc in enumerate(tx)) or len(tx) > 3 or t.sequence_number != (base + 1) % 256:
                        return True, f"acks {acks}: call from counter {before} transmitted counters {tx}, counter afterwards {t.sequence_number}"
        return False, "ok"
    return asyncio.run(go())
