"""Reserved / fixed-zero bits of application-layer PDUs, written from KNX 03_03_07 Application Layer v02.01.01 and
10_01 Logical Tag Extended.  RESERVED[service](L) -> {octet index: bitmask of bits that the specification does not
assign to a field} for an APDU of L octets (octet 0 = TPCI/APCI high bits, octet 1 = APCI low bits).

A bit is listed here only when the PDU layout in the specification shows it as reserved / fixed 0; every bit not
listed is protected: a decoded PDU that re-encodes differently there violates C05.
The top six bits of octet 0 belong to the transport layer and are always outside the comparison.
"""

LOW6 = 0x3F


def _low6_when_no_data(L):
    return {1: LOW6}


RESERVED = {
    # 4-bit APCI services whose six low APCI bits are fixed zero (no data carried in them)
    "GroupValueRead": lambda L: {1: LOW6},                                # §3.1.1 A_GroupValue_Read-PDU
    "IndividualAddressRead": lambda L: {1: LOW6},                         # §3.2.2
    "IndividualAddressResponse": lambda L: {1: LOW6},                     # §3.2.2
    "IndividualAddressWrite": lambda L: {1: LOW6},                        # §3.2.1
    "Restart": lambda L: {1: LOW6},                                       # §3.7.1 basic restart: bits 5..1 reserved, bit 0 = 0
    # A_GroupValue_Response/Write with data longer than 6 bit: the six low APCI bits are unused (000000)
    "GroupValueResponse": lambda L: {1: LOW6} if L > 2 else {},            # §3.1.1 / §3.1.2
    "GroupValueWrite": lambda L: {1: LOW6} if L > 2 else {},
    "AuthorizeRequest": lambda L: {2: 0xFF},                               # §3.5.5 octet 8 "reserved 00h"
    "IndividualAddressSerialResponse": lambda L: {10: 0xFF, 11: 0xFF},     # §3.2.5 two reserved octets
    "IndividualAddressSerialWrite": lambda L: {10: 0xFF, 11: 0xFF, 12: 0xFF, 13: 0xFF},  # §3.2.6 four reserved octets
    "LinkRead": lambda L: {3: 0xF0},                                       # §3.5.9 start_index is 4 bit, upper nibble reserved
    "LinkWrite": lambda L: {3: 0xFC},                                      # §3.5.11 flags: six reserved bits, d, s
    "PropertyDescriptionResponse": lambda L: {6: 0xF0},                    # §3.4.3.3 max_nr_of_elem is 12 bit
    "PropertyExtDescriptionResponse": lambda L: {13: 0x40},                # §3.4.x octet: w | reserved | PDT(6)
    "SystemNetworkParameterRead": lambda L: {5: 0x0F},                     # §3.6.1 PID is 12 bit + 4 reserved
    "SystemNetworkParameterResponse": lambda L: {5: 0x0F},
    "SystemNetworkParameterWrite": lambda L: {5: 0x0F},
}


def reserved_mask(service_name, L):
    f = RESERVED.get(service_name)
    return f(L) if f else {}
