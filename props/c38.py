"""C38 Eager group-address decoding never changes what devices see."""
from __future__ import annotations

ID = "C38"
BOUNDS = {
    "quick": "(a) every datapoint class T: GroupAddressDPT.set({ga: T}) then set_decoded_data on a GroupValueWrite/Response to ga with a symbolic payload of T's declared length (and one octet longer, and a 6-bit DPTBinary): no exception, decoded_data is None exactly when T.from_knx rejects, else carries T and the value T.from_knx returns; (b) remote values: every remote value class with a fixed datapoint type or its own decoder, and RemoteValueSensor for one representative type per decoder implementation (plus every type that has a sub- or superclass with a different range), each against the tables {no entry, its own type, every related (sub/super) type of the same payload shape with a different decoder signature, two unrelated types of the same shape}: return value of process(), value, last payload and callback arguments equal those of the run without a table, on a symbolic payload of the declared length and on one wrong-length payload",
    "thorough": "as quick with RemoteValueSensor for every value type",
}
OUTSIDE = "devices above their remote values (no device code reads decoded_data: checked syntactically at run time by scanning xknx/devices for 'decoded_data'); tables with unparsable addresses/DPT names (handled in GroupAddressDPT.set, exercised concretely only); float-coded comparisons that exceed the solver budget and cells involving the 8-byte signed types (64-bit values exceed the engine's 62-bit integer window) are reported inconclusive"
ABSTRACT_SIGS = ("state-differs:", "decoded-value-differs:")
ASSUMPTIONS = ["round(x, ndigits) (DPT 14 display rounding, xyY colours) is an uninterpreted function of x: arbitrary but equal for equal arguments; a counterexample that depends on its value is replayed and only counted if it reproduces", "'same state' = equal process() result, equal value (structural equality of the decoded terms, else decided by z3), equal last_payload, equal after_update_cb arguments"]
EXPLANATION = "C38: the real GroupAddressDPT.set/set_decoded_data and RemoteValue.process run twice on one symbolic payload, with and without a table entry; z3 decides that the two end states agree for every payload."
INTERESTING = ["decoded", "undecoded", "same-state"]
REQUIRED_REACH = ["decoded", "undecoded", "same-state"]

GA = "1/2/3"


def _sig(k):
    return (k.from_knx.__func__, getattr(k, "value_min", None), getattr(k, "value_max", None), getattr(k, "resolution", None), k.payload_type, k.payload_length)


def _shape(k):
    return (k.payload_type, k.payload_length)


def set_table(xk, cls):
    """Configure GA -> cls through the public GroupAddressDPT.set where a DPT number or value type names the class."""
    from xknx.dpt import DPTBase
    from xknx.telegram import GroupAddress
    for entry in (dict(main=cls.dpt_main_number, sub=cls.dpt_sub_number), cls.value_type):
        if entry and DPTBase.parse_transcoder(entry) is cls:
            xk.group_address_dpt.set({GA: entry})
            return
    xk.group_address_dpt._ga_dpts[GroupAddress(GA).raw] = cls      # classes no DPT number resolves to (abstract bases)


def fixed_specs():
    return [dict(cls=n) for n in ("RemoteValueOperationMode", "RemoteValueControllerMode", "RemoteValueHVACStatus", "RemoteValueColorRGB", "RemoteValueColorRGBW", "RemoteValueColorXYY",
                                  "RemoteValueTime", "RemoteValueDate", "RemoteValueDateTime", "RemoteValueDptValue1Ucount", "RemoteValueScaling", "RemoteValueSceneControl",
                                  "RemoteValueSceneNumber", "RemoteValueString", "RemoteValueStep", "RemoteValueSwitch", "RemoteValueTemp", "RemoteValueUpDown")] + [
        dict(cls="RemoteValueScaling", kw=dict(range_from=0, range_to=255)),
        dict(cls="RemoteValueRaw", kw=dict(payload_length=0)), dict(cls="RemoteValueRaw", kw=dict(payload_length=2)),
        dict(cls="RemoteValueSetpointShift"), dict(cls="RemoteValueSwitch", kw=dict(invert=True)),
    ]


def make_rv(xk, spec, cb=None):
    import xknx.remote_value as rvm
    from xknx.remote_value.remote_value_sensor import RemoteValueSensor
    kw = dict(spec.get("kw", {}))
    if spec["cls"] == "RemoteValueSensor":
        return RemoteValueSensor(xk, group_address_state=GA, value_type=kw["value_type"], after_update_cb=cb)
    import importlib
    k = getattr(rvm, spec["cls"], None)
    if k is None:
        for mod in ("remote_value_climate_mode", "remote_value_datetime", "remote_value_sensor", "remote_value_raw"):
            k = getattr(importlib.import_module("xknx.remote_value." + mod), spec["cls"], None)
            if k:
                break
    return k(xk, group_address_state=GA, after_update_cb=cb, **kw)


def rv_shape(spec):
    """(payload_type, length, own dpt class or None) of the payload a remote value expects."""
    from xknx import XKNX
    from xknx.dpt import DPTArray, DPTBinary
    rv = make_rv(XKNX(), spec)
    own = getattr(rv, "dpt_class", None)
    if own is not None:
        return own.payload_type, own.payload_length, own
    n = spec["cls"]
    if n in ("RemoteValueSwitch", "RemoteValueStep", "RemoteValueUpDown"):
        return DPTBinary, 1, None
    if n == "RemoteValueRaw":
        pl = spec["kw"]["payload_length"]
        return (DPTBinary, 1, None) if pl == 0 else (DPTArray, pl, None)
    if n == "RemoteValueColorRGBW":
        return DPTArray, 6, None
    return DPTArray, 1, None          # Scaling, SetpointShift (DPT 6.010 by length)


def tables_for(own, shape, limit_unrelated=2):
    """Names of the table DPTs to try against a remote value (None = no entry)."""
    from props.dpt_common import all_classes
    same_shape = [k for k in all_classes() if _shape(k) == shape]
    out = [None]
    if own is not None:
        out.append(own.__name__)
        rel = [k for k in same_shape if k is not own and (issubclass(k, own) or issubclass(own, k))]
        seen = {_sig(own)}
        for k in rel:
            if _sig(k) not in seen:
                seen.add(_sig(k))
                out.append(k.__name__)
        same = [k for k in rel if _sig(k) == _sig(own)]
        if same:
            out.append(same[0].__name__)
    unrelated = [k for k in same_shape if own is None or not (issubclass(k, own) or issubclass(own, k))]
    step = max(1, len(unrelated) // max(1, limit_unrelated))
    out += [k.__name__ for k in unrelated[::step][:limit_unrelated]]
    return out


def sensor_specs(tier):
    from props.dpt_common import all_classes
    ks = [k for k in all_classes() if k.value_type and k.has_distinct_value_type() and not hasattr(k, "_encoding")]
    if tier != "quick":
        return [dict(cls="RemoteValueSensor", kw=dict(value_type=k.value_type)) for k in ks]
    out, seen = [], set()
    for k in ks:
        related_diff = any(j is not k and _shape(j) == _shape(k) and (issubclass(j, k) or issubclass(k, j)) and _sig(j) != _sig(k) for j in ks)
        if _sig(k) not in seen or (related_diff and k.dpt_main_number not in (9, 14)):
            seen.add(_sig(k))
            out.append(dict(cls="RemoteValueSensor", kw=dict(value_type=k.value_type)))
    return out


def jobs(tier, seed):
    from props.dpt_common import all_classes, chunks
    from props.c08 import is_float_coded
    names = [c.__name__ for c in all_classes()]
    out = [dict(name=f"decoded-{i}", kind="decoded", classes=ch, cost=len(ch)) for i, ch in enumerate(chunks(names, 12))]
    specs = fixed_specs() + sensor_specs(tier)
    light, heavy = [], []
    for s in specs:
        own = rv_shape(s)[2]
        (heavy if own is not None and (is_float_coded(own.__name__) or own.dpt_main_number == 14) or s["cls"] in ("RemoteValueScaling", "RemoteValueSetpointShift") else light).append(s)
    out += [dict(name=f"rv-{i}", kind="rv", specs=ch, cost=len(ch) * 3) for i, ch in enumerate(chunks(light, 6))]
    out += [dict(name=f"rvf-{i}", kind="rv", specs=ch, cost=len(ch) * 20) for i, ch in enumerate(chunks(heavy, 2))]
    return out


def structurally_same(core, fp, a, b):
    """True when two results are built from identical z3 terms / equal concrete values (no solver needed)."""
    import dataclasses
    if a is b:
        return True
    if type(a) is not type(b):
        return False
    if isinstance(a, fp.SymFloat):
        return a.z.eq(b.z)
    if isinstance(a, (core.SymInt, core.SymBool)):
        return a.z.eq(b.z)
    if dataclasses.is_dataclass(a) and not isinstance(a, type):
        return all(structurally_same(core, fp, getattr(a, f.name), getattr(b, f.name)) for f in dataclasses.fields(a))
    if isinstance(a, (tuple, list)):
        return len(a) == len(b) and all(structurally_same(core, fp, x, y) for x, y in zip(a, b))
    try:
        return bool(a == b) if not core.is_sym(a) else False
    except Exception:  # noqa: BLE001
        return False


def run_job(job, rep):
    import types
    import z3
    from symx import core, fp, shims
    from vx.harness import trace_functions
    from props.dpt_common import class_by_name, payload_json
    from props.c08 import same_value
    from xknx import XKNX
    from xknx.dpt import DPTArray, DPTBinary
    from xknx.exceptions import ConversionError, CouldNotParseTelegram
    from xknx.telegram import GroupAddress, Telegram
    from xknx.telegram.apci import GroupValueResponse, GroupValueWrite
    import xknx.core.group_address_dpt as gad

    fp.MODE["mode"] = "exact"
    fp.MODE["round_ndigits"] = "uf"      # round(x, n) as an uninterpreted function: both runs see the same rounding
    core.QUERY_TIMEOUT_MS[0] = 30000
    gad._GA_DPT_LOGGER = types.SimpleNamespace(debug=lambda *a: None, warning=lambda *a: None)
    import xknx.remote_value.remote_value as rvmod
    rvmod.logger = types.SimpleNamespace(debug=lambda *a, **k: None, warning=lambda *a, **k: None, info=lambda *a, **k: None)

    def mk_payload(c, ptype, n, variant):
        if variant == "binary" or (variant == "declared" and ptype is DPTBinary):
            return DPTBinary(c.fresh_int("v", 0, 63))
        ln = n + 1 if variant == "longer" else n
        return DPTArray(tuple(c.fresh_int(f"b{i}", 0, 255) for i in range(ln)))

    def text_constrain(c, cls, p):
        if hasattr(cls, "_encoding") and isinstance(p, DPTArray):
            for i, o in enumerate(p.value):
                if core.is_sym(o):
                    c.add(z3.Or(*[o.z == v for v in ((0x00, 0x41, 0xE9) if i < 2 else (0x00,))]))

    if job["kind"] == "decoded":
        for name in job["classes"]:
            cls = class_by_name(name)
            shims.DECODE_MODE["mode"] = "fork" if hasattr(cls, "_encoding") else "placeholder"
            for variant in ("declared", "longer", "binary" if cls.payload_type is DPTArray else "longer"):
                for resp in ((False, True) if variant == "declared" else (False,)):
                    def run(c):
                        p = mk_payload(c, cls.payload_type, cls.payload_length, variant)
                        text_constrain(c, cls, p)
                        c.notes["p"] = p
                        xk = XKNX()
                        set_table(xk, cls)
                        tg = Telegram(destination_address=GroupAddress(GA), payload=(GroupValueResponse if resp else GroupValueWrite)(p))
                        f = lambda: xk.group_address_dpt.set_decoded_data(tg)
                        trace_functions(f, rep) if len(rep.functions) < 200 and not rep.extra.get(name) else f()
                        try:
                            direct = ("ok", cls.from_knx(p))
                        except (ConversionError, CouldNotParseTelegram) as e:
                            direct = ("rejected", e)
                        return tg.decoded_data, direct

                    def judge(pr):
                        c = pr.ctx
                        if pr.kind in ("unsupported", "timeout"):
                            rep.inconcl(f"{name}: {pr.kind} {pr.value}"); return
                        m = c.current_model()
                        mcase = lambda mm: dict(kind="decoded", cls=name, payload=payload_json(core, mm, c.notes["p"]), response=resp)
                        case = mcase(m)
                        if pr.kind == "raise":
                            rep.ob("refuted", f"set_decoded_data-raises:{name}:{type(pr.value).__name__}", case, repr(pr.value)); return
                        dd, direct = pr.value
                        if direct[0] == "rejected":
                            rep.reach["undecoded"] += 1
                            rep.ob("proved" if dd is None else "refuted", f"decoded-data-for-rejected-payload:{name}", case, repr(dd)); return
                        rep.reach["decoded"] += 1
                        if dd is None or dd.transcoder is not cls:
                            rep.ob("refuted", f"decoded-data-missing:{name}", case, f"decoded_data={dd!r}"); return
                        if structurally_same(core, fp, dd.value, direct[1]):
                            rep.obligations += 1; rep.discharged += 1
                        else:
                            st, mm = c.prove(same_value(core, fp, dd.value, direct[1]))
                            rep.ob(st, f"decoded-value-differs:{name}", mcase(mm) if mm is not None else case, "decoded_data.value != T.from_knx(payload)")
                        rep.sample(dict(cls=name, witness=case["payload"]), limit=1)
                    rep.extra[name] = True
                    _, st = core.explore(run, on_path=judge, stop=rep.enough, timeout=60, path_timeout=20)
                    rep.add_stats(st)
        shims.DECODE_MODE["mode"] = "placeholder"
        return

    for spec in job["specs"]:
        ptype, plen, own = rv_shape(spec)
        label = spec["cls"] + ("[" + ",".join(f"{k}={v}" for k, v in spec.get("kw", {}).items()) + "]" if spec.get("kw") else "")
        shims.DECODE_MODE["mode"] = "fork" if own is not None and hasattr(own, "_encoding") else "placeholder"
        for table in tables_for(own, (ptype, plen))[1:]:
            for variant in ("declared", "longer"):
                def run(c):
                    p = mk_payload(c, ptype, plen, variant)
                    if own is not None:
                        text_constrain(c, own, p)
                    c.notes["p"] = p
                    outs = []
                    for tab in (None, table):
                        xk = XKNX()
                        if tab is not None:
                            set_table(xk, class_by_name(tab))
                        calls = []
                        rv = make_rv(xk, spec, cb=calls.append)
                        tg = Telegram(destination_address=GroupAddress(GA), payload=GroupValueWrite(p))
                        xk.group_address_dpt.set_decoded_data(tg)
                        try:
                            f = lambda: rv.process(tg)
                            ret = ("ret", trace_functions(f, rep) if len(rep.functions) < 200 and not rep.extra.get(label) else f())
                        except (ConversionError, CouldNotParseTelegram) as e:
                            ret = ("raise", type(e).__name__)
                        outs.append((ret, rv.value, rv.last_payload, calls, tg.decoded_data))
                    return outs

                def judge(pr):
                    c = pr.ctx
                    if pr.kind in ("unsupported", "timeout"):
                        rep.inconcl(f"{label} vs {table}: {pr.kind} {pr.value}"); return
                    m = c.current_model()
                    mcase = lambda mm: dict(kind="rv", spec=spec, table=table, payload=payload_json(core, mm, c.notes["p"]))
                    case = mcase(m)
                    if pr.kind == "raise":
                        rep.ob("refuted", f"process-raises:{label}:{type(pr.value).__name__}", case, repr(pr.value)); return
                    (ra, va, pa, ca, _), (rb, vb, pb, cb_, dd) = pr.value
                    rep.reach["same-state"] += 1
                    if ra != rb or (pa is None) != (pb is None) or len(ca) != len(cb_):
                        rep.ob("refuted", f"state-differs:{label}", case, f"table {table}: process {rb} vs {ra} without; callbacks {len(cb_)} vs {len(ca)}"); return
                    pairs = [(va, vb)] + list(zip(ca, cb_))
                    if all(structurally_same(core, fp, x, y) for x, y in pairs):
                        rep.obligations += 1; rep.discharged += 1
                    else:
                        st, mm = c.prove(core.sym_and(*[same_value(core, fp, x, y) for x, y in pairs]))
                        rep.ob(st, f"state-differs:{label}", mcase(mm) if mm is not None else case, f"table {table}: value differs from the run without a table")
                    rep.sample(dict(rv=label, table=table, witness=case["payload"]), limit=1)
                rep.extra[label] = True
                _, st = core.explore(run, on_path=judge, stop=rep.enough, timeout=90, path_timeout=30)
                rep.add_stats(st)
    shims.DECODE_MODE["mode"] = "placeholder"


def replay(case):
    import math
    from props.dpt_common import class_by_name, payload_from_json
    from xknx import XKNX
    from xknx.exceptions import ConversionError, CouldNotParseTelegram
    from xknx.telegram import GroupAddress, Telegram
    from xknx.telegram.apci import GroupValueResponse, GroupValueWrite
    p = payload_from_json(case["payload"])

    def same(a, b):
        return a == b or (isinstance(a, float) and isinstance(b, float) and math.isnan(a) and math.isnan(b))

    if case["kind"] == "decoded":
        cls = class_by_name(case["cls"])
        xk = XKNX()
        set_table(xk, cls)
        tg = Telegram(destination_address=GroupAddress(GA), payload=(GroupValueResponse if case.get("response") else GroupValueWrite)(p))
        try:
            xk.group_address_dpt.set_decoded_data(tg)
        except Exception as e:  # noqa: BLE001
            return True, f"set_decoded_data raised {e!r} for {cls.__name__} payload {p!r}"
        try:
            v = cls.from_knx(p)
        except (ConversionError, CouldNotParseTelegram):
            return (tg.decoded_data is not None), f"decoded_data {tg.decoded_data!r} for a payload {cls.__name__} rejects"
        if tg.decoded_data is None or tg.decoded_data.transcoder is not cls or not same(tg.decoded_data.value, v):
            return True, f"{cls.__name__} payload {p!r}: decoded_data {tg.decoded_data!r}, from_knx gives {v!r}"
        return False, "ok"
    outs = []
    for tab in (None, case["table"]):
        xk = XKNX()
        if tab is not None:
            set_table(xk, class_by_name(tab))
        calls = []
        rv = make_rv(xk, case["spec"], cb=calls.append)
        tg = Telegram(destination_address=GroupAddress(GA), payload=GroupValueWrite(p))
        try:
            xk.group_address_dpt.set_decoded_data(tg)
            ret = rv.process(tg)
        except (ConversionError, CouldNotParseTelegram) as e:
            ret = type(e).__name__
        except Exception as e:  # noqa: BLE001
            return True, f"{case['spec']} with table {tab}: {e!r}"
        outs.append((ret, rv.value, rv.last_payload, calls))
    a, b = outs
    if a[0] != b[0] or not same(a[1], b[1]) or a[2] != b[2] or len(a[3]) != len(b[3]) or not all(same(x, y) for x, y in zip(a[3], b[3])):
        return True, f"{case['spec']} payload {p!r}: without table {a}, with {case['table']} {b}"
    return False, "ok"
