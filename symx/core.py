"""symx core: proxy-object symbolic execution of real Python code over z3.

Values:  SymInt (z3 BitVec(64) + interval guard), SymBool (z3 Bool), SymBytes (concrete length, elements int|SymInt),
         SymFloat (z3 Float64, in symx.fp).
Search:  re-execution DFS with decision-prefix replay; every __bool__ on a symbolic value asks the solver which
         outcomes are feasible under the current path condition.
Verdicts are produced by harnesses through Ctx.prove()/Ctx.sat() on z3 terms; this module never samples.
"""
from __future__ import annotations

import builtins
import signal
import sys
import time

import z3

W = 64
LIM = 1 << 62


class PathAbort(BaseException):
    """Path is infeasible / intentionally cut (assume false)."""


class Unsupported(BaseException):
    """The engine cannot model this operation: the path is inconclusive (never a pass, never a violation)."""


class PathTimeout(BaseException):
    """Per-path wall clock budget exhausted (possible non-termination in the code under test)."""


_ctx: "Ctx | None" = None


def ctx() -> "Ctx":
    if _ctx is None:
        raise RuntimeError("symbolic value used outside explore()")
    return _ctx


QUERY_TIMEOUT_MS = [60000]
_FP_TACTIC = z3.Then("simplify", "fpa2bv", "simplify", "bit-blast", "smt")
CVC5 = "/usr/bin/cvc5"


def _cvc5_check(assertions, assumptions, timeout_ms):
    """Run the cvc5 binary on the query.  Returns ('unsat', None) / ('sat', {name: (sort, value)}) / None."""
    import os
    import re
    import subprocess
    import tempfile
    if not os.path.exists(CVC5):
        return None
    s = z3.Solver()
    s.add(assertions)
    for a in assumptions:
        s.add(a)
    txt = "(set-option :produce-models true)\n(set-logic QF_BVFP)\n" + s.to_smt2() + "\n(get-model)\n"
    fd, path = tempfile.mkstemp(suffix=".smt2", prefix="symx_cvc5_")
    try:
        with os.fdopen(fd, "w") as f:
            f.write(txt)
        try:
            p = subprocess.run([CVC5, "--tlimit=%d" % timeout_ms, path], capture_output=True, text=True, timeout=timeout_ms / 1000 + 10)
        except subprocess.TimeoutExpired:
            return None
    finally:
        try:
            os.unlink(path)
        except OSError:
            pass
    out = p.stdout
    if "(error" in out or "(error" in p.stderr:
        return None
    first = out.strip().splitlines()[0].strip() if out.strip() else ""
    if first == "unsat":
        return "unsat", None
    if first != "sat":
        return None
    vals = {}
    for m in re.finditer(r"\(define-fun\s+(\S+)\s+\(\)\s+\(_ BitVec (\d+)\)\s+#([xb])([0-9a-fA-F]+)\)", out):
        vals[m.group(1).strip("|")] = ("bv", (int(m.group(2)), int(m.group(4), 16 if m.group(3) == "x" else 2)))
    for m in re.finditer(r"\(define-fun\s+(\S+)\s+\(\)\s+Bool\s+(true|false)\)", out):
        vals[m.group(1).strip("|")] = ("bool", m.group(2) == "true")
    return "sat", vals


class Ctx:
    def __init__(self, replay):
        self.solver = z3.Solver()
        self.replay = replay
        self.decisions = []
        self.todo = []
        self.queries = 0
        self.solver_time = 0.0
        self.model = None          # a model of the current path condition, if known
        self.ph = {}               # placeholder string -> symbolic value
        self.notes = {}            # harness scratch (inputs to concretise for replay etc.)
        self.nvars = 0
        self.unknowns = 0
        self.query_timeout_ms = QUERY_TIMEOUT_MS[0]
        self.fp_used = False       # set by symx.fp: queries then go through the bit-blasting tactic (much faster on QF_BVFP)
        self._msolver = None

    # ---- solver access
    def _check(self, *assumptions):
        t = time.time()
        if self.fp_used:
            r = self._check_fp(assumptions)
        else:
            self.solver.set("timeout", self.query_timeout_ms)
            r = self.solver.check(*assumptions)
            self._msolver = self.solver
        self.solver_time += time.time() - t
        self.queries += 1
        if r == z3.unknown:
            self.unknowns += 1
        return r

    def _check_fp(self, assumptions):
        """Floating-point queries: portfolio of z3 (bit-blast + smt core), z3 default and the cvc5 binary.
        Any disagreement between engines is reported as unknown."""
        budget = self.query_timeout_ms
        verdicts = []
        for tac, share in ((_FP_TACTIC, 0.35), (None, 0.25)):
            s = tac.solver() if tac is not None else z3.Solver()
            s.set("timeout", max(1000, int(budget * share)))
            s.add(self.solver.assertions())
            for a in assumptions:
                s.add(a)
            r = s.check()
            if r != z3.unknown:
                self._msolver = s
                return r
        r = _cvc5_check(self.solver.assertions(), assumptions, max(1000, int(budget * 0.4)))
        if r is None:
            self._msolver = None
            return z3.unknown
        verdict, values = r
        if verdict == "unsat":
            return z3.unsat
        # rebuild a z3 model from cvc5's values (all free variables fixed: evaluation only)
        s = z3.Solver()
        s.add(self.solver.assertions())
        for a in assumptions:
            s.add(a)
        for name, (sort, val) in values.items():
            if sort == "bv":
                w, v = val
                s.add(z3.BitVec(name, w) == z3.BitVecVal(v, w))
            elif sort == "bool":
                s.add(z3.Bool(name) == val)
        s.set("timeout", 20000)
        if s.check() == z3.sat:
            self._msolver = s
            return z3.sat
        return z3.unknown        # engines disagree or the model could not be transferred: inconclusive

    def _model(self):
        return self._msolver.model()

    def add(self, cond):
        """Assume cond (z3 Bool or SymBool or bool) on this path; abort the path if it becomes infeasible."""
        cond = as_z3_bool(cond)
        cond = z3.simplify(cond)
        if z3.is_true(cond):
            return
        if z3.is_false(cond):
            raise PathAbort("assume false")
        self.solver.add(cond)
        if self.model is not None and not z3.is_true(self.model.eval(cond, model_completion=True)):
            self.model = None
        if self.model is None:
            r = self._check()
            if r == z3.unsat:
                raise PathAbort("assume infeasible")
            if r == z3.unknown:
                raise Unsupported("solver unknown on assumption")
            self.model = self._model()

    def current_model(self):
        if self.model is None:
            r = self._check()
            if r == z3.unsat:
                raise PathAbort("infeasible")
            if r == z3.unknown:
                raise Unsupported("solver unknown")
            self.model = self._model()
        return self.model

    def branch(self, cond):
        cond = z3.simplify(cond)
        if z3.is_true(cond):
            return True
        if z3.is_false(cond):
            return False
        i = len(self.decisions)
        if i < len(self.replay):
            d = self.replay[i]
            assert isinstance(d, bool), "decision replay out of sync"
            self.model = None
        else:
            m = self.current_model()
            mv = z3.is_true(m.eval(cond, model_completion=True))
            # the model already witnesses one side; ask the solver for the other
            other = z3.Not(cond) if mv else cond
            r = self._check(other)
            if r == z3.unknown:
                raise Unsupported("solver unknown at branch")
            if r == z3.sat:
                self.todo.append(self.decisions + [not mv])
            d = mv
        self.decisions.append(d)
        self.solver.add(cond if d else z3.Not(cond))
        return d

    # ---- harness API
    def fresh_int(self, name, lo, hi):
        self.nvars += 1
        v = z3.BitVec(name, W)
        self.solver.add(v >= lo, v <= hi)
        self.model = None
        return SymInt(v, lo, hi)

    def fresh_bool(self, name):
        self.nvars += 1
        return SymBool(z3.Bool(name))

    def fresh_bytes(self, name, n, mutable=False):
        return SymBytes([self.fresh_int(f"{name}{i}", 0, 255) for i in range(n)], mutable)

    def sat(self, cond):
        """Is path ∧ cond satisfiable?  Returns ('sat', model) / ('unsat', None) / ('unknown', None)."""
        cond = z3.simplify(as_z3_bool(cond))
        if z3.is_false(cond):
            return "unsat", None
        r = self._check(cond)
        if r == z3.sat:
            return "sat", self._model()
        if r == z3.unsat:
            return "unsat", None
        return "unknown", None

    def prove(self, cond):
        """Does cond hold for every input on this path?  Returns ('proved', None) / ('refuted', model) / ('unknown', None)."""
        r, m = self.sat(z3.Not(as_z3_bool(cond)))
        return {"unsat": "proved", "sat": "refuted", "unknown": "unknown"}[r], m

    def placeholder(self, v):
        s = "9" + str(len(self.ph) + 1).zfill(9)
        self.ph[s] = v
        return s


# ------------------------------------------------------------------ helpers
def as_z3_bool(x):
    if isinstance(x, SymBool):
        return x.z
    if isinstance(x, SymInt):
        return x.z != 0
    if isinstance(x, bool):
        return z3.BoolVal(x)
    if z3.is_expr(x):
        return x
    return z3.BoolVal(bool(x))


def zint(x):
    """z3 BitVec(64) term for an int-like value, or None."""
    if isinstance(x, SymInt):
        return x.z
    if isinstance(x, SymBool):
        return z3.If(x.z, z3.BitVecVal(1, W), z3.BitVecVal(0, W))
    if isinstance(x, (bool, int)):
        if not -LIM < int(x) < LIM:
            raise Unsupported("constant too large for BV encoding")
        return z3.BitVecVal(int(x), W)
    return None


def _bounds(x):
    if isinstance(x, SymInt):
        return x.lo, x.hi
    if isinstance(x, SymBool):
        return 0, 1
    return int(x), int(x)


def mk_int(z, lo, hi):
    if lo is None or hi is None or lo <= -LIM or hi >= LIM:
        raise Unsupported("integer bounds unknown or beyond 62 bits")
    z = z3.simplify(z)
    if z3.is_bv_value(z):
        return z.as_signed_long()
    if lo == hi:
        return lo
    return SymInt(z, lo, hi)


def mk_bool(z):
    z = z3.simplify(z)
    if z3.is_true(z):
        return True
    if z3.is_false(z):
        return False
    return SymBool(z)


def is_sym(x):
    return isinstance(x, (SymInt, SymBool))


def sym_not(x):
    if isinstance(x, SymBool):
        return SymBool(z3.Not(x.z))
    if isinstance(x, SymInt):
        return mk_bool(x.z == 0)
    return not x


def sym_and(*xs):
    xs = [as_z3_bool(x) for x in xs]
    return mk_bool(z3.And(*xs))


def sym_or(*xs):
    xs = [as_z3_bool(x) for x in xs]
    return mk_bool(z3.Or(*xs))


def sym_in(a, b):
    """`a in b` that stays symbolic for int-like a against ranges and int collections."""
    if is_sym(a):
        if isinstance(a, SymBool):
            a = a._i()
        if isinstance(b, range):
            if b.step == 1:
                return sym_and(a >= b.start, a < b.stop)
            if b.step > 1 and len(b) > 0:
                return sym_and(a >= b.start, a < b.stop, (a - b.start) % b.step == 0)
            return False
        if isinstance(b, (tuple, list, set, frozenset)) and all(
            isinstance(e, (int, SymInt, SymBool)) or e is None or isinstance(e, str) for e in b
        ):
            terms = [a.z == zint(e) for e in b if isinstance(e, (int, SymInt, SymBool))]
            return mk_bool(z3.Or(*terms)) if terms else False
        if isinstance(b, (SymBytes, bytes, bytearray)):
            return mk_bool(z3.Or(*[a.z == zint(e) for e in b])) if len(b) else False
        if isinstance(b, dict) and all(isinstance(e, int) for e in b):
            return mk_bool(z3.Or(*[a.z == zint(e) for e in b])) if b else False
    if isinstance(b, SymBytes) and isinstance(a, int):
        return mk_bool(z3.Or(*[zint(e) == a for e in b.b])) if len(b) else False
    return a in b


class SymBool:
    __slots__ = ("z",)

    def __init__(self, z):
        self.z = z

    def __bool__(self):
        return ctx().branch(self.z)

    def __eq__(self, o):
        if isinstance(o, SymBool):
            return mk_bool(self.z == o.z)
        if isinstance(o, bool):
            return SymBool(self.z if o else z3.Not(self.z))
        return self._i() == o

    def __ne__(self, o):
        return sym_not(self.__eq__(o))

    def __hash__(self):
        return hash(bool(self))

    def __int__(self):
        return int(bool(self))

    def __index__(self):
        return int(bool(self))

    def _i(self):
        return SymInt(zint(self), 0, 1)

    def __lshift__(self, o):
        return self._i() << o

    def __rshift__(self, o):
        return self._i() >> o

    def __or__(self, o):
        if isinstance(o, SymBool):
            return mk_bool(z3.Or(self.z, o.z))
        if isinstance(o, bool):
            return True if o else self
        return self._i() | o

    __ror__ = __or__

    def __and__(self, o):
        if isinstance(o, SymBool):
            return mk_bool(z3.And(self.z, o.z))
        if isinstance(o, bool):
            return self if o else False
        return self._i() & o

    __rand__ = __and__

    def __xor__(self, o):
        if isinstance(o, SymBool):
            return mk_bool(z3.Xor(self.z, o.z))
        if isinstance(o, bool):
            return sym_not(self) if o else self
        return self._i() ^ o

    __rxor__ = __xor__

    def __invert__(self):
        return ~self._i()

    def __add__(self, o):
        return self._i() + o

    __radd__ = __add__

    def __sub__(self, o):
        return self._i() - o

    def __rsub__(self, o):
        return o - self._i()

    def __mul__(self, o):
        return self._i() * o

    __rmul__ = __mul__

    def __lt__(self, o):
        return self._i() < o

    def __le__(self, o):
        return self._i() <= o

    def __gt__(self, o):
        return self._i() > o

    def __ge__(self, o):
        return self._i() >= o

    def __format__(self, spec):
        return "True" if bool(self) else "False"

    def __repr__(self):
        return "<symbool>"


def _bitop(a, b, op):
    la, ha = _bounds(a)
    lb, hb = _bounds(b)
    za, zb = zint(a), zint(b)
    if op == "and":
        r = za & zb
        if la >= 0 and lb >= 0:
            lo, hi = 0, min(ha, hb)
        elif la >= 0:
            lo, hi = 0, ha
        elif lb >= 0:
            lo, hi = 0, hb
        else:
            m = max(abs(la), abs(ha), abs(lb), abs(hb)).bit_length()
            lo, hi = -(1 << m), (1 << m) - 1
    else:
        r = (za | zb) if op == "or" else (za ^ zb)
        if la >= 0 and lb >= 0:
            w = max(ha, hb).bit_length()
            lo, hi = 0, (1 << w) - 1
        else:
            m = max(abs(la), abs(ha), abs(lb), abs(hb)).bit_length()
            lo, hi = -(1 << m), (1 << m) - 1
    return mk_int(r, lo, hi)


class SymInt:
    __slots__ = ("z", "lo", "hi")

    def __init__(self, z, lo, hi):
        self.z, self.lo, self.hi = z, lo, hi

    def __hash__(self):
        f = sys._getframe(1)
        if f.f_code.co_filename.endswith("enum.py"):
            return self._enum_hash(f)
        return hash(concretize(self, limit=48))

    def _enum_hash(self, f):
        """Called by Enum.__new__'s `cls._value2member_map_[value]`: partition the value space into one cell per member
        value plus 'no member' and fork over the feasible cells (recorded like concretize decisions)."""
        cls = f.f_locals.get("cls")
        try:
            vals = [v for v in cls._value2member_map_ if isinstance(v, int)]
        except Exception:  # noqa: BLE001
            raise TypeError("unhashable type: 'SymInt'") from None
        c = ctx()
        none_cond = z3.And(*[self.z != v for v in vals]) if vals else z3.BoolVal(True)
        while True:
            i = len(c.decisions)
            if i < len(c.replay):
                tag, v, d = c.replay[i]
                assert tag == "e", "decision replay out of sync"
                c.model = None
            else:
                m = c.current_model()
                v = m.eval(self.z, model_completion=True).as_signed_long()
                if v not in vals:
                    v = None
                cell = (self.z == v) if v is not None else none_cond
                r = c._check(z3.Not(cell))
                if r == z3.unknown:
                    raise Unsupported("solver unknown in enum lookup")
                if r == z3.sat:
                    c.todo.append(c.decisions + [("e", v, False)])
                d = True
            cell = (self.z == v) if v is not None else none_cond
            c.decisions.append(("e", v, d))
            c.solver.add(cell if d else z3.Not(cell))
            if d:
                if v is None:
                    return hash(("symx-no-enum-member",))     # KeyError in the map -> _missing_ -> ValueError
                return hash(v)

    def _cmp(self, o, f, quick):
        zo = zint(o)
        if zo is None:
            return NotImplemented
        lo2, hi2 = _bounds(o)
        q = quick(self.lo, self.hi, lo2, hi2)
        if q is not None:
            return q
        return mk_bool(f(self.z, zo))

    def __eq__(self, o):
        if isinstance(o, SymFloatBase):
            return o.__eq__(self)
        zo = zint(o) if not isinstance(o, float) else None
        if zo is None:
            if isinstance(o, float) and o == int(o):
                return self == int(o)
            return False
        lo2, hi2 = _bounds(o)
        if hi2 < self.lo or lo2 > self.hi:
            return False
        return mk_bool(self.z == zo)

    def __ne__(self, o):
        return sym_not(self.__eq__(o))

    def __lt__(self, o):
        if isinstance(o, (float, SymFloatBase)):
            return to_float(self) < o
        return self._cmp(o, lambda a, b: a < b, lambda l1, h1, l2, h2: True if h1 < l2 else (False if l1 >= h2 else None))

    def __le__(self, o):
        if isinstance(o, (float, SymFloatBase)):
            return to_float(self) <= o
        return self._cmp(o, lambda a, b: a <= b, lambda l1, h1, l2, h2: True if h1 <= l2 else (False if l1 > h2 else None))

    def __gt__(self, o):
        if isinstance(o, (float, SymFloatBase)):
            return to_float(self) > o
        return self._cmp(o, lambda a, b: a > b, lambda l1, h1, l2, h2: True if l1 > h2 else (False if h1 <= l2 else None))

    def __ge__(self, o):
        if isinstance(o, (float, SymFloatBase)):
            return to_float(self) >= o
        return self._cmp(o, lambda a, b: a >= b, lambda l1, h1, l2, h2: True if l1 >= h2 else (False if h1 < l2 else None))

    def __bool__(self):
        return ctx().branch(self.z != 0)

    def __add__(self, o):
        if isinstance(o, (float, SymFloatBase)):
            return to_float(self) + o
        zo = zint(o)
        if zo is None:
            return NotImplemented
        lo2, hi2 = _bounds(o)
        return mk_int(self.z + zo, self.lo + lo2, self.hi + hi2)

    __radd__ = __add__

    def __sub__(self, o):
        if isinstance(o, (float, SymFloatBase)):
            return to_float(self) - o
        zo = zint(o)
        if zo is None:
            return NotImplemented
        lo2, hi2 = _bounds(o)
        return mk_int(self.z - zo, self.lo - hi2, self.hi - lo2)

    def __rsub__(self, o):
        if isinstance(o, (float, SymFloatBase)):
            return o - to_float(self)
        zo = zint(o)
        if zo is None:
            return NotImplemented
        lo2, hi2 = _bounds(o)
        return mk_int(zo - self.z, lo2 - self.hi, hi2 - self.lo)

    def __neg__(self):
        return mk_int(-self.z, -self.hi, -self.lo)

    def __pos__(self):
        return self

    def __mul__(self, o):
        if isinstance(o, (float, SymFloatBase)):
            return to_float(self) * o
        zo = zint(o)
        if zo is None:
            return NotImplemented
        lo2, hi2 = _bounds(o)
        c = [self.lo * lo2, self.lo * hi2, self.hi * lo2, self.hi * hi2]
        return mk_int(self.z * zo, min(c), max(c))

    __rmul__ = __mul__

    def __truediv__(self, o):
        return to_float(self) / o

    def __rtruediv__(self, o):
        return o / to_float(self)

    def __floordiv__(self, o):
        if isinstance(o, int) and not isinstance(o, bool) and o > 0:
            if self.lo >= 0:
                return mk_int(z3.UDiv(self.z, zint(o)), self.lo // o, self.hi // o)
            if o & (o - 1) == 0:
                return mk_int(self.z >> (o.bit_length() - 1), self.lo // o, self.hi // o)
            q = z3.If(self.z >= 0, z3.UDiv(self.z, zint(o)), -z3.UDiv(-self.z + (o - 1), zint(o)))
            return mk_int(q, self.lo // o, self.hi // o)
        if isinstance(o, SymInt) and o.lo > 0 and self.lo >= 0:
            return mk_int(z3.UDiv(self.z, o.z), self.lo // o.hi, self.hi // o.lo)
        raise Unsupported("floordiv by symbolic/nonpositive")

    def __rfloordiv__(self, o):
        if isinstance(o, int) and o >= 0 and self.lo > 0:
            return mk_int(z3.UDiv(zint(o), self.z), o // self.hi, o // self.lo)
        raise Unsupported("rfloordiv")

    def __mod__(self, o):
        if isinstance(o, int) and not isinstance(o, bool) and o > 0:
            if o & (o - 1) == 0:
                return mk_int(self.z & (o - 1), 0, o - 1)
            if self.lo >= 0:
                return mk_int(z3.URem(self.z, zint(o)), 0, min(o - 1, self.hi))
            q = self // o
            return self - q * o
        raise Unsupported("mod by symbolic/nonpositive")

    def __divmod__(self, o):
        return self // o, self % o

    def __lshift__(self, o):
        if not isinstance(o, int):
            o = concretize(o)
        return self * (1 << o)

    def __rlshift__(self, o):
        return o << concretize(self)

    def __rshift__(self, o):
        if not isinstance(o, int):
            o = concretize(o)
        return mk_int(self.z >> o, self.lo >> o, self.hi >> o)  # arithmetic shift == floor

    def __rrshift__(self, o):
        return o >> concretize(self)

    def __and__(self, o):
        if zint(o) is None:
            return NotImplemented
        return _bitop(self, o, "and")

    __rand__ = __and__

    def __or__(self, o):
        if zint(o) is None:
            return NotImplemented
        return _bitop(self, o, "or")

    __ror__ = __or__

    def __xor__(self, o):
        if zint(o) is None:
            return NotImplemented
        return _bitop(self, o, "xor")

    __rxor__ = __xor__

    def __invert__(self):
        return -self - 1

    def __abs__(self):
        if self.lo >= 0:
            return self
        return mk_int(z3.If(self.z < 0, -self.z, self.z), 0, max(abs(self.lo), abs(self.hi)))

    def __pow__(self, o):
        if isinstance(o, int) and 0 <= o <= 4:
            r = 1
            for _ in range(o):
                r = r * self
            return r
        raise Unsupported("pow")

    def __rpow__(self, o):
        return o ** concretize(self)

    def __index__(self):
        return concretize(self)

    def __int__(self):
        return concretize(self)

    def __float__(self):
        raise Unsupported("float() of symbolic int through C boundary")

    def __round__(self, n=None):
        return self

    def __trunc__(self):
        return self

    def __format__(self, spec):
        return self.__repr__()

    def __repr__(self):
        if _ctx is None:
            return "<symint>"
        if self.lo < 0:
            if self < 0:                       # forks on the sign: the rendering differs
                return "-" + ctx().placeholder(-self)
        return ctx().placeholder(self)

    __str__ = __repr__

    def bit_length(self):
        return concretize(self).bit_length()

    def to_bytes(self, length=1, byteorder="big", *, signed=False):
        return int_to_bytes(self, length, byteorder, signed=signed)

    @property
    def real(self):
        return self

    @property
    def value(self):  # guard against being mistaken for an Enum member
        raise AttributeError("value")


class SymFloatBase:
    """Marker base so core can recognise SymFloat without importing fp."""
    __slots__ = ()


def to_float(x):
    from . import fp
    return fp.to_symfloat(x)


def concretize(x, limit=4096):
    """Fork over every feasible value of x (exhaustive, bounded by `limit`).

    Decisions are recorded as ("v", value, taken) so that a replayed prefix re-applies exactly the same constraints
    (solver models are not guaranteed to repeat across re-executions)."""
    if isinstance(x, SymBool):
        return int(bool(x))
    if not isinstance(x, SymInt):
        return x
    c = ctx()
    n = 0
    while True:
        n += 1
        if n > limit:
            raise Unsupported("too many values to concretize")
        i = len(c.decisions)
        if i < len(c.replay):
            tag, v, d = c.replay[i]
            assert tag == "v", "decision replay out of sync"
            c.model = None
        else:
            m = c.current_model()
            v = m.eval(x.z, model_completion=True).as_signed_long()
            r = c._check(x.z != v)
            if r == z3.unknown:
                raise Unsupported("solver unknown in concretize")
            if r == z3.sat:
                c.todo.append(c.decisions + [("v", v, False)])
            d = True
        c.decisions.append(("v", v, d))
        c.solver.add(x.z == v if d else x.z != v)
        if d:
            return v


def ite(c, a, b):
    """Symbolic if-then-else on int-likes without forking."""
    if isinstance(c, bool):
        return a if c else b
    la, ha = _bounds(a)
    lb, hb = _bounds(b)
    return mk_int(z3.If(as_z3_bool(c), zint(a), zint(b)), min(la, lb), max(ha, hb))


# ---------------------------------------------------------------- bytes
class SymBytes:
    """bytes/bytearray with concrete length and possibly-symbolic elements."""
    __slots__ = ("b", "mutable")

    def __init__(self, elems, mutable=False):
        self.b = list(elems)
        self.mutable = mutable

    def __hash__(self):
        return hash(builtins.bytes(concretize(e) for e in self.b))

    def __len__(self):
        return len(self.b)

    def __iter__(self):
        return iter(list(self.b))

    def __bool__(self):
        return bool(self.b)

    def _norm_slice(self, s):
        n = len(self.b)

        def cv(v):
            if not is_sym(v):
                return v
            if isinstance(v, SymBool):
                v = v._i()
            if v >= n:
                return n  # one path for every out-of-range bound
            if v <= -n:
                return -n
            return concretize(v)

        return slice(cv(s.start), cv(s.stop), cv(s.step))

    def __getitem__(self, i):
        if isinstance(i, slice):
            return SymBytes(self.b[self._norm_slice(i)], self.mutable)
        if is_sym(i):
            n = len(self.b)
            if isinstance(i, SymBool):
                i = i._i()
            if i >= n or i < -n:
                raise IndexError("index out of range")
            i = concretize(i)
        return self.b[i]

    def __setitem__(self, i, v):
        if not self.mutable:
            raise TypeError("'bytes' object does not support item assignment")
        if isinstance(i, slice):
            vs = list(v)
            for e in vs:
                check_byte(e)
            self.b[self._norm_slice(i)] = vs
            return
        check_byte(v)
        if is_sym(i):
            i = concretize(i)
        self.b[i] = v

    def __add__(self, o):
        if isinstance(o, (bytes, bytearray, SymBytes)):
            return SymBytes(self.b + list(o), self.mutable)
        return NotImplemented

    def __radd__(self, o):
        if isinstance(o, (bytes, bytearray)):
            return SymBytes(list(o) + self.b, isinstance(o, bytearray))
        return NotImplemented

    def __iadd__(self, o):
        if not isinstance(o, (bytes, bytearray, SymBytes)):
            raise TypeError("can't concat")
        if self.mutable:
            self.b.extend(list(o))
            return self
        return self.__add__(o)

    def extend(self, o):
        vs = list(o)
        for e in vs:
            check_byte(e)
        self.b.extend(vs)

    def append(self, v):
        check_byte(v)
        self.b.append(v)

    def __eq__(self, o):
        if not isinstance(o, (bytes, bytearray, SymBytes)):
            return False
        ob = list(o)
        if len(ob) != len(self.b):
            return False
        conj = []
        for a, b in zip(self.b, ob):
            if isinstance(a, int) and isinstance(b, int):
                if a != b:
                    return False
            else:
                conj.append(zint(a) == zint(b))
        if not conj:
            return True
        return mk_bool(z3.And(*conj))

    def __ne__(self, o):
        return sym_not(self.__eq__(o))

    def hex(self, *a):
        if not has_sym(self.b):
            return builtins.bytes(self.b).hex(*a)
        from . import shims
        return shims._symstr(SymBytes(self.b), "hex")

    def __repr__(self):
        return "<symbytes len=%d>" % len(self.b)

    def __mul__(self, n):
        return SymBytes(self.b * n, self.mutable)

    def startswith(self, p):
        p = list(p)
        return SymBytes(self.b[: len(p)]) == builtins.bytes(p) if len(p) <= len(self.b) else False

    def decode(self, encoding="utf-8", errors="strict"):
        from . import shims
        return shims.decode_bytes(self, encoding, errors)

    def rstrip(self, chars=None):
        raise Unsupported("bytes.rstrip on symbolic bytes")

    def index(self, v, *a):
        for i, e in enumerate(self.b):
            if e == v:
                return i
        raise ValueError("subsection not found")

    def copy(self):
        return SymBytes(self.b, self.mutable)

    def concrete(self, model):
        return builtins.bytes(model_int(model, e) for e in self.b)


def check_byte(v):
    if isinstance(v, SymBool):
        return
    if isinstance(v, SymInt):
        if not (v >= 0 and v <= 255):  # forks; the raising path mirrors CPython
            raise ValueError("byte must be in range(0, 256)")
        return
    if not isinstance(v, int):
        raise TypeError("an integer is required")
    if not 0 <= v <= 255:
        raise ValueError("byte must be in range(0, 256)")


def has_sym(it):
    return any(is_sym(e) for e in it)


def int_from_bytes(b, byteorder="big", *, signed=False):
    elems = list(b)
    if byteorder == "little":
        elems = elems[::-1]
    if not has_sym(elems):
        return builtins.int.from_bytes(builtins.bytes(elems), "big", signed=signed)
    n = len(elems)
    if n <= 7:
        # concatenation instead of a multiply-add chain: no 64-bit multipliers for the bit-blaster
        parts = [z3.BitVecVal(e, 8) if isinstance(e, int) else z3.Extract(7, 0, zint(e)) for e in elems]
        cat = z3.Concat(*parts) if n > 1 else parts[0]
        lo = sum(_bounds(e)[0] << (8 * (n - 1 - i)) for i, e in enumerate(elems))
        hi = sum(_bounds(e)[1] << (8 * (n - 1 - i)) for i, e in enumerate(elems))
        acc = mk_int(z3.ZeroExt(W - 8 * n, cat), max(lo, 0), hi)
    else:
        acc = 0
        for e in elems:
            acc = acc * 256 + e
    if signed:
        n = len(elems)
        acc = ite(acc >= (1 << (8 * n - 1)), acc - (1 << (8 * n)), acc)
    return acc


def int_to_bytes(v, length=1, byteorder="big", *, signed=False):
    if not is_sym(v):
        return builtins.int.to_bytes(v, length, byteorder, signed=signed)
    if isinstance(v, SymBool):
        v = v._i()
    if signed:
        if not (v >= -(1 << (8 * length - 1)) and v < (1 << (8 * length - 1))):
            raise OverflowError("int too big to convert")
        v = ite(v < 0, v + (1 << (8 * length)), v)
    else:
        if v < 0:
            raise OverflowError("can't convert negative int to unsigned")
        if not v < (1 << (8 * length)):
            raise OverflowError("int too big to convert")
    out = [(v >> (8 * (length - 1 - i))) & 0xFF for i in range(length)]
    if byteorder == "little":
        out = out[::-1]
    return SymBytes(out)


# ---------------------------------------------------------------- models
def model_int(m, e):
    if isinstance(e, SymInt):
        return m.eval(e.z, model_completion=True).as_signed_long()
    if isinstance(e, SymBool):
        return int(z3.is_true(m.eval(e.z, model_completion=True)))
    return e


def model_val(m, e):
    """Concretise an arbitrary harness value (nested containers of symbolic values) under model m."""
    from . import fp
    if isinstance(e, SymInt):
        return model_int(m, e)
    if isinstance(e, SymBool):
        return z3.is_true(m.eval(e.z, model_completion=True))
    if isinstance(e, SymBytes):
        return builtins.bytes(model_int(m, x) for x in e.b)
    if isinstance(e, fp.SymFloat):
        return fp.model_float(m, e)
    if isinstance(e, (list, tuple)):
        return type(e)(model_val(m, x) for x in e)
    if isinstance(e, dict):
        return {k: model_val(m, v) for k, v in e.items()}
    return e


# ---------------------------------------------------------------- exploration
class PathResult:
    __slots__ = ("kind", "value", "ctx")

    def __init__(self, kind, value, c):
        self.kind, self.value, self.ctx = kind, value, c


def _alarm(signum, frame):
    raise PathTimeout("per-path time budget exhausted")


def explore(fn, max_paths=200000, timeout=3600, path_timeout=30, on_path=None, max_timeouts=2, stop=None):
    """Run fn(ctx) on every feasible path.  Returns (results, stats).

    results: PathResult(kind in ok|raise|unsupported|timeout) -- unless on_path is given, in which case each
    PathResult is handed to on_path immediately (so its solver can be queried) and not stored.
    """
    global _ctx
    results = []
    todo = [[]]
    stats = dict(paths=0, queries=0, solver_s=0.0, unsupported=0, timeouts=0, unknowns=0, incomplete=False)
    t0 = time.time()
    old = signal.signal(signal.SIGALRM, _alarm)
    try:
        while todo:
            if stop is not None and stop():
                stats["stopped_early"] = True
                break
            if stats["paths"] >= max_paths or time.time() - t0 > timeout or stats["timeouts"] >= max_timeouts:
                stats["incomplete"] = True
                stats["pending_prefixes"] = len(todo)
                break
            prefix = todo.pop()
            c = Ctx(prefix)
            _ctx = c
            # repeating timer: if the first PathTimeout is swallowed (e.g. raised inside a __del__ or a ctypes callback, where
            # Python only prints "Exception ignored"), the next tick raises it again instead of leaving the path unbounded
            signal.setitimer(signal.ITIMER_REAL, path_timeout, 2.0)
            try:
                try:
                    res = fn(c)
                    pr = PathResult("ok", res, c)
                except PathAbort:
                    pr = None
                except Unsupported as e:
                    stats["unsupported"] += 1
                    pr = PathResult("unsupported", e, c)
                except PathTimeout as e:
                    stats["timeouts"] += 1
                    pr = PathResult("timeout", e, c)
                except RecursionError as e:
                    pr = PathResult("raise", e, c)
                except Exception as e:  # the property harness decides what a raise means
                    pr = PathResult("raise", e, c)
                signal.setitimer(signal.ITIMER_REAL, 0)
                if pr is not None:
                    if on_path is not None:
                        signal.setitimer(signal.ITIMER_REAL, max(path_timeout, 120), 2.0)
                        try:
                            on_path(pr)
                        except PathTimeout:
                            stats["timeouts"] += 1
                        except Unsupported:
                            stats["unsupported"] += 1
                        except (KeyError, AttributeError, IndexError, TypeError):
                            # a path that ran out of budget (or hit an unsupported operation) before the harness recorded its
                            # inputs cannot be described by the judge: count it as an undecided path, not a crash
                            if pr.kind not in ("timeout", "unsupported"):
                                raise
                            stats["judge_skipped"] = stats.get("judge_skipped", 0) + 1
                        finally:
                            signal.setitimer(signal.ITIMER_REAL, 0)
                    else:
                        results.append(pr)
            finally:
                signal.setitimer(signal.ITIMER_REAL, 0)
            todo.extend(c.todo)
            stats["paths"] += 1
            stats["queries"] += c.queries
            stats["solver_s"] += c.solver_time
            stats["unknowns"] += c.unknowns
    finally:
        signal.signal(signal.SIGALRM, old)
        _ctx = None
    stats["wall_s"] = time.time() - t0
    return results, stats
