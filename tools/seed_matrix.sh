#!/bin/bash
# usage: tools/seed_matrix.sh [seed names...]  -- runs every kept seed against the check of its property in a scratch
# worktree of /repo (VERIF_REPO), leaving /repo untouched; writes one line per seed to /tmp/seed_matrix.txt.
# Evidence files written during these runs are discarded (restored from git afterwards by the caller).
WT=/tmp/seedrepo
git -C /repo worktree remove --force $WT 2>/dev/null; git -C /repo worktree add -q --detach $WT HEAD || exit 2
OUT=${OUT:-/tmp/seed_matrix.txt}
SEEDS=${@:-$(ls /verif/seeded)}
for s in $SEEDS; do
  id=${s%%_*}
  [ -f /verif/props/$(echo $id | tr A-Z a-z).py ] || { echo "$s NOCHECK" >> $OUT; continue; }
  git -C $WT reset -q --hard HEAD
  if ! git -C $WT apply /verif/seeded/$s/patch.diff 2>/dev/null; then echo "$s NOAPPLY" >> $OUT; continue; fi
  t0=$(date +%s)
  res=$(cd /verif && VERIF_REPO=$WT timeout ${SEED_TIMEOUT:-1500} ./check $id --tier quick --jobs ${JOBS:-8} 2>&1)
  rc=$?
  v=$(echo "$res" | grep -c "^VIOLATION")
  h=$(echo "$res" | grep -c "^HARNESS-ERROR")
  echo "$s exit=$rc violations=$v harness_errors=$h secs=$(( $(date +%s) - t0 ))" >> $OUT
done
git -C /repo worktree remove --force $WT
echo DONE >> $OUT
